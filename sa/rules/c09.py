"""C09  Output options and worker scheduling never change what the program does.

Structural clauses decided here (necessary conditions; byte-identity under all interleavings and the file-count
arithmetic for all (n, f) are not decided - see DESIGN.md):

R09.1  lock discipline of the writer pool: every access to the shared slot (writer->task, writer->done, the task
       record after the threads exist) happens with the writer mutex held; lock/unlock are paired on every path;
       every pthread_cond_wait sits in a while loop re-testing the shared predicate with that mutex; posting a task is
       followed by a signal and setting done by a broadcast before the unlock; the worker clears the slot before unlocking
R09.2  worker confinement: no function reachable from the worker entry point writes a variable with static storage
       duration, calls a non-reentrant library function, or casts away const from module data; the stateful debug-line
       cursor is handed to workers only under a condition that contains threadCount == 1
R09.3  static/dynamic split is a partition: along every path through one iteration of the split loops each advance of
       the function cursor is preceded by exactly one append of *that* function to exactly one of the two lists, the
       static list only under hash equality with the reference entry
       the function hash really covers the whole body: SHA1Update is partially evaluated for every (buffered count, length)
       with 0 <= length <= 200 and the bytes handed to the compression function, in order, are exactly the buffered bytes
       followed by the input, the remainder (always < 64) stays buffered, and the bit count advances by 8 * length
R09.4  formatting neutrality: for every dispatch row and control-flow script the pretty and non-pretty templates are
       the same C after parsing (identical typed AST modulo parentheses, braces and white space); symbol prefixing
       changes nothing but a `<module>_` prefix on function identifiers
R09.5  twin emitters: every wasmCWriteFileX / wasmCWriteStringX pair produces the same text for the same arguments
R09.7  complete outputs: the header, main file and split files are rendered (sequential configuration) for one module with 6
       functions under every -f N (0..7), several static/dynamic splits, both formatting modes and symbol prefixing: each
       defined function appears exactly once across the files, split files are numbered 0.. without gaps and none is empty,
       every function text equals the one of the single-file output, every file passes gcc and clang syntax/type checking on
       its own against the generated header; the worker passes the task fields to the file writer in parameter order
R09.8  debug names (-g): after the duplicate-name pass no two functions keep the same name (each would get the same assembler label),
       unique names are kept; decided on every equality pattern of up to 4 names (shared with C10 R10.8)
R09.6  data-segment embedding neutrality: for modules mixing passive and active segments of different sizes, the blob modes
       (gnu-ld, sectcreate) address segment k at ds + (sum of the sizes of all earlier segments) with the same memory, offset
       and size as the arrays mode uses for d<k>, and the blob writer emits every segment, in order, with its full length
R09.15 the producer drains the task slot (waits on produce while writer.task != NULL, under the lock) before it posts the next task
       and before it announces done - unless the worker tests the slot before done
"""
import re

from .. import astdb, cfg, emit, pe, oracle, templates, modules as M
from ..astdb import AnalysisBroken, kids, walk, strip
from ..pe import Ptr, Text
from . import c01, c06, c10, c11

WORKER = 'wasmCImplementationWriterThread'
PRODUCER = 'wasmCWriteModuleImplementationFiles'
SHARED_FIELDS = ('task', 'done')
NON_REENTRANT = {'strtok', 'rand', 'srand', 'localtime', 'gmtime', 'asctime', 'ctime', 'getenv', 'setenv', 'basename', 'dirname',
                 '__xpg_basename', 'readdir', 'getopt', 'strsignal', 'tmpnam', 'chdir', 'setlocale'}


def pthread_tu(chk):
    tu = astdb.dump_ast(astdb.src('w2c2/c.c'), extra=['-DHAS_PTHREAD=1'])
    chk.unit(tu)
    return tu


# ---- R09.1 ----------------------------------------------------------------------------------------

def mutex_text(arg):
    a = strip(arg, casts=True)
    if a.get('kind') == 'UnaryOperator' and a.get('opcode') == '&':
        a = strip(kids(a)[0])
    return astdb.expr_text(a)


def check_locks(chk, tu):
    for fname in (WORKER, PRODUCER):
        f = tu.functions.get(fname)
        chk.require(f is not None and astdb.fn_body(f) is not None, 'anchor function %s not found (HAS_PTHREAD=1 configuration)' % fname)
        chk.fn(fname)
        body = astdb.fn_body(f)
        order = {id(n): i for i, n in enumerate(walk(body))}
        creates = [order[id(n)] for n in walk(body) if n.get('kind') == 'CallExpr' and astdb.callee_name(n) == 'pthread_create']
        started_at = min(creates) if creates else (-1 if fname == WORKER else None)
        if fname == PRODUCER:
            chk.require(creates, 'no pthread_create in %s' % PRODUCER)
        # the writer object and the shared task record
        writer_rec = 'WasmCImplementationConcurrentWriter'
        task_rec = 'WasmCImplementationWriterTask'

        def shared_access(nd):
            """description if nd reads/writes shared state"""
            if nd.get('kind') != 'MemberExpr':
                return None
            base = strip(kids(nd)[0])
            rec = c10.record_of(base, tu)
            if rec == writer_rec and nd.get('name') in SHARED_FIELDS:
                return 'writer.%s' % nd.get('name')
            if rec == task_rec and order[id(nd)] > started_at:
                return 'task.%s' % nd.get('name')
            return None

        def is_target(nd):
            k = nd.get('kind')
            if shared_access(nd):
                return True
            if k == 'CallExpr' and astdb.callee_name(nd) in ('pthread_mutex_lock', 'pthread_mutex_unlock', 'pthread_cond_wait',
                                                             'pthread_cond_signal', 'pthread_cond_broadcast'):
                return True
            return k == 'ReturnStmtMarker'

        def gen(nd):
            if nd.get('kind') == 'CallExpr':
                cn = astdb.callee_name(nd)
                if cn == 'pthread_mutex_lock':
                    return [('held', mutex_text(astdb.call_args(nd)[0]))]
                if cn == 'pthread_mutex_unlock':
                    return [('free', mutex_text(astdb.call_args(nd)[0]))]
            return ()

        def kills(nd):
            if nd.get('kind') == 'CallExpr':
                cn = astdb.callee_name(nd)
                if cn == 'pthread_mutex_lock':
                    m = mutex_text(astdb.call_args(nd)[0])
                    return lambda fa: fa == ('free', m)
                if cn == 'pthread_mutex_unlock':
                    m = mutex_text(astdb.call_args(nd)[0])
                    return lambda fa: fa == ('held', m)
            return None
        mutexes = {mutex_text(astdb.call_args(n)[0]) for n in walk(body) if n.get('kind') == 'CallExpr' and astdb.callee_name(n) == 'pthread_mutex_lock'}
        chk.require(len(mutexes) == 1, '%s locks %r - expected exactly one writer mutex' % (fname, sorted(mutexes)))
        mtx = list(mutexes)[0]
        g = cfg.Guarded(gen, is_target, lambda c, t: (), kills, noreturn=('exit', 'abort'))
        # record facts at every return as well
        rets = []
        orig_stmt = g.stmt

        def stmt(node, facts):
            if node is not None and node.get('kind') == 'ReturnStmt' and facts is not cfg.TOP:
                for c in node.get('inner', []):
                    if c.get('kind'):
                        facts = g.expr(c, facts)
                rets.append((node, facts))
                return cfg.TOP
            return orig_stmt(node, facts)
        g.stmt = stmt
        # cfg's recursive calls go through self.stmt, so rebinding the attribute intercepts nested statements too
        end = g.stmt(body, frozenset([('free', mtx)]))
        if end is not cfg.TOP:
            rets.append((body, end))
        n_acc = 0
        for _id, (nd, facts) in g.result.items():
            if facts is None:
                continue
            loc = astdb.loc_str(nd)
            sa_ = shared_access(nd)
            if sa_:
                n_acc += 1
                chk.expect(('held', mtx) in facts, 'R09.1', '%s:%s@%s' % (fname, sa_, loc.split(':')[-1]),
                           '%s accesses the shared %s at %s without holding %s on every path to it: a worker and the producer can race on the task slot'
                           % (fname, sa_, loc, mtx), '%s:unlocked-access:%s' % (fname, sa_), loc)
                continue
            cn = astdb.callee_name(nd)
            if cn == 'pthread_mutex_lock':
                chk.expect(('free', mtx) in facts, 'R09.1', '%s:lock@%s' % (fname, loc.split(':')[-1]),
                           '%s locks %s at %s while it may already hold it (self-deadlock)' % (fname, mtx, loc), '%s:double-lock' % fname, loc)
            elif cn == 'pthread_mutex_unlock':
                chk.expect(('held', mtx) in facts, 'R09.1', '%s:unlock@%s' % (fname, loc.split(':')[-1]),
                           '%s unlocks %s at %s on a path where it is not held' % (fname, mtx, loc), '%s:unlock-unheld' % fname, loc)
            elif cn == 'pthread_cond_wait':
                args = astdb.call_args(nd)
                ok = ('held', mtx) in facts and mutex_text(args[1]) == mtx
                # enclosing while loop whose condition reads shared state
                loop = None
                for w in walk(body):
                    if w.get('kind') == 'WhileStmt' and any(x is nd for x in walk(w['inner'][-1])):
                        loop = w
                pred = loop is not None and any(x.get('kind') == 'MemberExpr' and x.get('name') in SHARED_FIELDS for x in walk(loop['inner'][-2]))
                chk.expect(ok and pred, 'R09.1', '%s:wait@%s' % (fname, loc.split(':')[-1]),
                           'pthread_cond_wait at %s in %s: %s' % (loc, fname, 'mutex not held / different mutex' if not ok else
                                                                   'not inside a while loop that re-tests writer.task / writer.done (spurious or stolen wake-ups break the hand-off)'),
                           '%s:cond-wait' % fname, loc)
            elif cn in ('pthread_cond_signal', 'pthread_cond_broadcast'):
                chk.expect(('held', mtx) in facts, 'R09.1', '%s:%s@%s' % (fname, cn, loc.split(':')[-1]),
                           '%s at %s in %s without the mutex held' % (cn, loc, fname), '%s:signal-unlocked' % fname, loc)
        for nd, facts in rets:
            loc = astdb.loc_str(nd)
            chk.expect(('free', mtx) in facts, 'R09.1', '%s:exit@%s' % (fname, loc.split(':')[-1]),
                       '%s can leave at %s with %s still held: every other thread blocks forever' % (fname, loc, mtx), '%s:exit-locked' % fname, loc)
        chk.require(n_acc >= 4, '%s: only %d shared accesses recognised' % (fname, n_acc))
        # hand-off protocol: store to the slot / done followed by the right wake-up in the same block before the unlock
        for blk in walk(body):
            if blk.get('kind') != 'CompoundStmt':
                continue
            stmts = [s for s in blk.get('inner', []) if s.get('kind')]
            for i, s in enumerate(stmts):
                if s.get('kind') != 'BinaryOperator' or s.get('opcode') != '=':
                    continue
                l = strip(kids(s)[0])
                if l.get('kind') != 'MemberExpr' or c10.record_of(kids(l)[0], tu) != writer_rec:
                    continue
                rhs_null = astdb.const_int(strip(kids(s)[1], casts=True), tu) == 0
                following = []
                for t in stmts[i + 1:]:
                    if t.get('kind') == 'CallExpr':
                        following.append((astdb.callee_name(t), [mutex_text(a) for a in astdb.call_args(t)][:1]))
                        if astdb.callee_name(t) == 'pthread_mutex_unlock':
                            break
                names = [x[0] for x in following]
                if l.get('name') == 'task' and not rhs_null:
                    ok = any(n_ in ('pthread_cond_signal', 'pthread_cond_broadcast') and a and a[0].endswith('consume') for n_, a in following)
                    chk.expect(ok and 'pthread_mutex_unlock' in names, 'R09.1', '%s:post-then-signal' % fname,
                               '%s posts a task at %s but does not signal the consume condition before unlocking (%r): idle workers never wake up'
                               % (fname, astdb.loc_str(s), names), '%s:post-signal' % fname, astdb.loc_str(s))
                if l.get('name') == 'done' and not rhs_null:
                    ok = any(n_ == 'pthread_cond_broadcast' and a and a[0].endswith('consume') for n_, a in following)
                    chk.expect(ok and 'pthread_mutex_unlock' in names, 'R09.1', '%s:done-then-broadcast' % fname,
                               '%s sets done at %s but does not broadcast the consume condition before unlocking (%r): with several workers '
                               'all but one wait forever and pthread_join never returns' % (fname, astdb.loc_str(s), names),
                               '%s:done-broadcast' % fname, astdb.loc_str(s))
                if fname == PRODUCER and not rhs_null and l.get('name') in ('task', 'done'):
                    # R09.15: the slot is drained (while (writer.task != NULL) wait(produce)) between the lock and the store -
                    # posting into an occupied slot overwrites a task; announcing done over an occupied slot lets the worker,
                    # which tests done first, leave with that task unwritten (the last file is never emitted)
                    before = []
                    for t in stmts[:i]:
                        if t.get('kind') == 'CallExpr' and astdb.callee_name(t) == 'pthread_mutex_lock':
                            before = []
                        else:
                            before.append(t)
                    def drain_loop(t):
                        return (t.get('kind') == 'WhileStmt'
                                and any(x.get('kind') == 'MemberExpr' and x.get('name') == 'task' for x in walk(kids(t)[-2]))
                                and any(x.get('kind') == 'CallExpr' and astdb.callee_name(x) == 'pthread_cond_wait'
                                        and mutex_text(astdb.call_args(x)[0]).endswith('produce') for x in walk(kids(t)[-1])))

                    def drains(t):
                        # the loop itself, or a call of a helper of this unit whose body is that loop (and does not unlock)
                        if drain_loop(t):
                            return True
                        if t.get('kind') == 'CallExpr' and astdb.callee_name(t) in tu.functions:
                            hb = astdb.fn_body(tu.functions[astdb.callee_name(t)])
                            return hb is not None and any(drain_loop(x) for x in walk(hb)) and not any(
                                x.get('kind') == 'CallExpr' and astdb.callee_name(x) == 'pthread_mutex_unlock' for x in walk(hb))
                        return False
                    drained = any(drains(t) for t in before)
                    worker_prefers_task = False
                    if l.get('name') == 'done':
                        wbody = astdb.fn_body(tu.functions[WORKER])
                        ifs = [w for w in walk(wbody) if w.get('kind') == 'IfStmt'
                               and any(x.get('kind') == 'MemberExpr' and x.get('name') == 'done' for x in walk(kids(w)[0]))]
                        worker_prefers_task = bool(ifs) and all(any(x.get('kind') == 'MemberExpr' and x.get('name') == 'task' for x in walk(kids(w)[0]))
                                                                 for w in ifs)
                    chk.expect(drained or worker_prefers_task, 'R09.15', '%s:drain-before-%s' % (fname, l.get('name')),
                               '%s stores writer.%s at %s without first waiting, under the same lock, for the task slot to be empty '
                               '(while (writer.task != NULL) pthread_cond_wait(&writer.produce, ...)): %s' % (
                                   fname, l.get('name'), astdb.loc_str(s),
                                   'a pending task is overwritten and its file is never written' if l.get('name') == 'task' else
                                   'the worker tests done before task and leaves with the last task pending - the last implementation file is never written'),
                               '%s:drain-before-%s' % (fname, l.get('name')), astdb.loc_str(s))
                if l.get('name') == 'task' and rhs_null and fname == WORKER:
                    chk.expect('pthread_mutex_unlock' in names, 'R09.1', '%s:clear-then-unlock' % fname,
                               'worker clears the slot at %s but the unlock does not follow in the same block' % astdb.loc_str(s),
                               '%s:clear-unlock' % fname, astdb.loc_str(s))
    # the worker re-announces itself to the producer
    wb = astdb.fn_body(tu.functions[WORKER])
    sig = [n for n in walk(wb) if n.get('kind') == 'CallExpr' and astdb.callee_name(n) in ('pthread_cond_signal', 'pthread_cond_broadcast')
           and mutex_text(astdb.call_args(n)[0]).endswith('produce')]
    chk.expect(bool(sig), 'R09.1', 'worker:signals-produce', 'the worker never signals the produce condition: the producer waits forever for the slot', WORKER + ':signal-produce')
    clears = [n for n in walk(wb) if n.get('kind') == 'BinaryOperator' and n.get('opcode') == '=' and strip(kids(n)[0]).get('kind') == 'MemberExpr'
              and strip(kids(n)[0]).get('name') == 'task' and astdb.const_int(strip(kids(n)[1], casts=True), tu) == 0]
    chk.expect(len(clears) == 1, 'R09.1', 'worker:clears-slot', 'the worker clears the task slot %d times (expected once, under the lock)' % len(clears), WORKER + ':clear-slot')


# ---- R09.2 ----------------------------------------------------------------------------------------

def reachable_from(funcs_by_name, root):
    seen, todo = set(), [root]
    edges = {}
    while todo:
        fn = todo.pop()
        if fn in seen or fn not in funcs_by_name:
            continue
        seen.add(fn)
        tu, f = funcs_by_name[fn]
        for n in walk(astdb.fn_body(f)):
            if n.get('kind') == 'CallExpr':
                cn = astdb.callee_name(n)
                if cn:
                    edges.setdefault(fn, set()).add(cn)
                    todo.append(cn)
            elif n.get('kind') == 'DeclRefExpr' and n.get('referencedDecl', {}).get('kind') == 'FunctionDecl':
                todo.append(n['referencedDecl'].get('name'))     # function used as a value (callbacks)
    return seen, edges


def check_confinement(chk, tu, all_funcs):
    by_name = {}
    for t, f in all_funcs:
        by_name.setdefault(f['name'], (t, f))
    for name, f in tu.functions.items():
        if astdb.fn_body(f) is not None:
            by_name[name] = (tu, f)       # the pthread configuration of c.c wins
    reach, edges = reachable_from(by_name, WORKER)
    chk.require(len(reach) >= 120 and 'wasmCWriteFunctionCode' in reach, 'call graph from the worker is implausibly small (%d functions)' % len(reach))
    chk.extra['worker_reachable_functions'] = len(reach)
    n_writes = 0
    for fn in sorted(reach):
        t, f = by_name[fn]
        chk.fn(fn)
        body = astdb.fn_body(f)
        statics = {}
        for n in walk(body):
            if n.get('kind') == 'VarDecl' and n.get('storageClass') == 'static':
                statics[n['id']] = n.get('name')
        parents = {}
        for n in walk(body):
            for c_ in kids(n):
                parents[id(c_)] = n
        for n in walk(body):
            k = n.get('kind')
            target = None
            if k in ('BinaryOperator', 'CompoundAssignOperator') and (n.get('opcode') == '=' or k == 'CompoundAssignOperator'):
                target = kids(n)[0]
            elif k == 'UnaryOperator' and n.get('opcode') in ('++', '--'):
                target = kids(n)[0]
            if target is not None:
                root = strip(target, casts=True)
                while root.get('kind') in ('MemberExpr', 'ArraySubscriptExpr') and not (root.get('kind') == 'MemberExpr' and root.get('isArrow')):
                    root = strip(kids(root)[0], casts=True)
                if root.get('kind') == 'DeclRefExpr':
                    rd = root['referencedDecl']
                    is_static = rd.get('id') in statics
                    is_global = rd.get('kind') == 'VarDecl' and rd.get('name') in t.vars and rd.get('id') == t.vars[rd['name']].get('id')
                    n_writes += 1
                    chk.expect(not (is_static or is_global), 'R09.2', '%s:write:%s' % (fn, rd.get('name')),
                               '%s (reachable from the worker threads) writes the %s variable %s at %s: concurrent workers race on it and the '
                               'output depends on the schedule' % (fn, 'function-static' if is_static else 'file-scope', rd.get('name'), astdb.loc_str(n)),
                               '%s:static-write:%s' % (fn, rd.get('name')), astdb.loc_str(n))
            if k == 'DeclRefExpr' and n.get('referencedDecl', {}).get('kind') == 'VarDecl':
                # a pointer to mutable static storage that leaves the expression (address taken, or an array that decays to a pointer
                # which is stored / passed on): whoever holds the pointer writes shared storage from several workers
                rd = n['referencedDecl']
                is_static = rd.get('id') in statics
                is_global = rd.get('name') in t.vars and rd.get('id') == t.vars[rd['name']].get('id')
                if is_static or is_global:
                    decl = t.vars.get(rd.get('name')) if is_global else None
                    qt = astdb.qtype(n)
                    elem_const = bool(re.match(r'\s*const\b', qt)) or bool(re.search(r'\bconst\s*(\[|$)', qt.split('*')[0] if '[' in qt else qt))
                    par = parents.get(id(n))
                    while par is not None and par.get('kind') == 'ParenExpr':
                        par = parents.get(id(par))
                    escapes = False
                    if par is not None and par.get('kind') == 'UnaryOperator' and par.get('opcode') == '&':
                        escapes = True
                    if par is not None and par.get('kind') == 'ImplicitCastExpr' and par.get('castKind') == 'ArrayToPointerDecay':
                        gp = parents.get(id(par))
                        while gp is not None and gp.get('kind') == 'ParenExpr':
                            gp = parents.get(id(gp))
                        escapes = not (gp is not None and gp.get('kind') == 'ArraySubscriptExpr' and kids(gp)[0] is par) and \
                            not (gp is not None and gp.get('kind') == 'CallExpr' and (astdb.callee_name(gp) or '') in ('fputs', 'fprintf', 'printf', 'strlen', 'strcmp', 'fwrite', 'stringBuilderAppend'))
                    if escapes and not elem_const:
                        chk.fail('R09.2', '%s:address-of:%s' % (fn, rd.get('name')),
                                 '%s (reachable from the worker threads) lets a pointer to the mutable %s variable %s leave the expression at %s '
                                 '(type %s): the storage is shared by all workers, so whatever is written through the pointer races and the output '
                                 'depends on the schedule' % (fn, 'function-static' if is_static else 'file-scope', rd.get('name'), astdb.loc_str(n), qt),
                                 '%s:static-address:%s' % (fn, rd.get('name')), astdb.loc_str(n))
            if k == 'CallExpr':
                cn = astdb.callee_name(n)
                if cn in NON_REENTRANT:
                    chk.fail('R09.2', '%s:calls:%s' % (fn, cn), '%s (reachable from the worker threads) calls the non-reentrant %s at %s'
                             % (fn, cn, astdb.loc_str(n)), '%s:non-reentrant:%s' % (fn, cn), astdb.loc_str(n))
            if k == 'CStyleCastExpr':
                dst = t.desugar(astdb.qtype(n))
                srcq = t.desugar(astdb.qtype(strip(kids(n)[-1])))
                if dst.endswith('*') and 'const' in srcq.split('*')[0] and 'const' not in dst.split('*')[0] and 'Wasm' in srcq:
                    chk.fail('R09.2', '%s:const-cast' % fn, '%s casts away const (%s -> %s) at %s: module data shared by all workers could be written'
                             % (fn, srcq, dst, astdb.loc_str(n)), '%s:const-cast' % fn, astdb.loc_str(n))
    chk.ok('R09.2', 'writes-scanned', '%d stores in %d functions reachable from %s; none targets static storage' % (n_writes, len(reach), WORKER))
    # the debug-line cursor
    prod = astdb.fn_body(tu.functions[PRODUCER])

    def nonnull_guards(store):
        """conditions under which `store` puts a non-NULL cursor into the task: enclosing if-conditions and, for a conditional
        expression on the right-hand side, the condition selecting the non-NULL arm"""
        guards = []
        for n in walk(prod):
            if n.get('kind') == 'IfStmt' and any(x is store for x in walk(n['inner'][1])):
                guards.append(_cond_closure(n['inner'][0], prod))
            if n.get('kind') == 'IfStmt' and len(n['inner']) > 2 and any(x is store for x in walk(n['inner'][2])):
                guards.append('!(' + _cond_closure(n['inner'][0], prod) + ')')
        rhs = strip(kids(store)[1], casts=True)
        if rhs.get('kind') == 'ConditionalOperator':
            c, a, b = kids(rhs)
            a_null = astdb.const_int(strip(a, casts=True), tu) == 0
            b_null = astdb.const_int(strip(b, casts=True), tu) == 0
            if b_null and not a_null:
                guards.append(_cond_closure(c, prod))
            elif a_null and not b_null:
                guards.append('!(' + _cond_closure(c, prod) + ')')
            elif a_null and b_null:
                guards.append('0 == 1')
        return guards
    all_stores = [a for a in walk(prod) if a.get('kind') == 'BinaryOperator' and a.get('opcode') == '=' and strip(kids(a)[0]).get('kind') == 'MemberExpr'
                  and strip(kids(a)[0]).get('name') == 'debugLines' and astdb.const_int(strip(kids(a)[1], casts=True), tu) != 0]
    chk.require(all_stores, 'no store of a debug-line cursor into the task record found')
    for a in all_stores:
        guards = nonnull_guards(a)
        ok = any(re.search(r'threadCount\s*==\s*1\b', g) is not None and '||' not in g and not g.startswith('!') for g in guards)
        chk.expect(ok, 'R09.2', 'debug-cursor-single-thread',
                   'the stateful debug-line cursor is handed to the workers at %s under condition %r, which does not imply threadCount == 1: '
                   'several workers would advance one cursor concurrently' % (astdb.loc_str(a), guards or 'none'),
                   PRODUCER + ':debug-cursor', astdb.loc_str(a))


def _cond_closure(cond, body):
    """text of a condition with boolean locals replaced by their initialisers"""
    txt = astdb.expr_text(strip(cond, casts=True))
    for n in walk(body):
        if n.get('kind') == 'VarDecl' and n.get('init') and n.get('name') and re.search(r'\b%s\b' % re.escape(n['name']), txt):
            ini = [c for c in kids(n) if c.get('kind')][-1]
            txt = re.sub(r'\b%s\b' % re.escape(n['name']), '(' + astdb.expr_text(strip(ini, casts=True)) + ')', txt)
    return txt


# ---- R09.3 ----------------------------------------------------------------------------------------

def iteration_paths(stmt, tu):
    """[(conditions, events)] through a loop-free statement; events: ('append', list, what) / ('advance', var) / ('exit',)"""
    k = stmt.get('kind')
    if k == 'CompoundStmt':
        paths = [([], [])]
        for s in stmt.get('inner', []):
            if not s.get('kind'):
                continue
            new = []
            for conds, evs in paths:
                if evs and evs[-1] == ('exit',):
                    new.append((conds, evs))
                    continue
                for c2, e2 in iteration_paths(s, tu):
                    new.append((conds + c2, evs + e2))
            paths = new
        return paths
    if k == 'IfStmt':
        inner = stmt['inner']
        ctext = astdb.expr_text(strip(inner[0], casts=True))
        cev = _events(inner[0], tu)
        out = []
        for c2, e2 in iteration_paths(inner[1], tu):
            out.append(([(ctext, True)] + c2, cev + e2))
        if len(inner) > 2:
            for c2, e2 in iteration_paths(inner[2], tu):
                out.append(([(ctext, False)] + c2, cev + e2))
        else:
            out.append(([(ctext, False)], list(cev)))
        return out
    if k in ('WhileStmt', 'ForStmt', 'DoStmt', 'SwitchStmt', 'GotoStmt'):
        raise AnalysisBroken('unexpected %s inside a split-loop iteration' % k)
    return [([], _events(stmt, tu))]


def _events(node, tu):
    evs = []
    for n in walk(node):
        k = n.get('kind')
        if k == 'CallExpr':
            cn = astdb.callee_name(n)
            if cn == 'wasmFunctionIDsAppend' or cn in _append_wrappers(tu):
                a = astdb.call_args(n)
                evs.append(('append', astdb.expr_text(strip(a[0], casts=True)), astdb.expr_text(strip(a[1], casts=True))))
            elif cn in ('exit', 'abort'):
                evs.append(('exit',))
        elif k == 'UnaryOperator' and n.get('opcode') in ('++',):
            evs.append(('advance', astdb.expr_text(strip(kids(n)[0]))))
        elif k in ('BinaryOperator', 'CompoundAssignOperator') and n.get('opcode') in ('=', '+=', '-=') and strip(kids(n)[0]).get('kind') == 'DeclRefExpr' \
                and '*' in tu.desugar(astdb.qtype(kids(n)[0])):
            evs.append(('assign', astdb.expr_text(strip(kids(n)[0]))))
    # source order: walk is pre-order, calls nested in conditions come first as in evaluation order for these simple forms
    return evs


_WRAPPERS = {}


def _append_wrappers(tu):
    """functions that do nothing with the list but hand their (list, id) parameters to wasmFunctionIDsAppend (possibly exiting on
    failure) - an append under another name"""
    key = id(tu)
    if key not in _WRAPPERS:
        out = set()
        for name, f in tu.functions.items():
            body = astdb.fn_body(f)
            ps = [p.get('name') for p in astdb.fn_params(f)]
            if body is None or len(ps) != 2:
                continue
            calls = [c for c in walk(body) if c.get('kind') == 'CallExpr' and astdb.callee_name(c) not in ('exit', 'abort')]
            if len(calls) == 1 and astdb.callee_name(calls[0]) == 'wasmFunctionIDsAppend' and \
                    [astdb.expr_text(strip(a, casts=True)) for a in astdb.call_args(calls[0])] == ps and \
                    not any(x.get('kind') in ('WhileStmt', 'ForStmt', 'DoStmt') for x in walk(body)):
                out.add(name)
        _WRAPPERS[key] = out
    return _WRAPPERS[key]


def concrete_partition(tu):
    """wasmSplitStaticAndDynamicFunctions on concrete, hash-sorted lists: every function of the module lands in exactly one of the two
    lists - static iff a reference function has the same hash - in order.  -> (discrepancy or None, number of cases)"""
    from .. import pe
    from ..pe import Ptr
    ids = [2, 4, 6, 8]
    refsets = [[], [2], [8], [4, 6], [2, 4, 6, 8], [1], [9], [1, 9], [5], [1, 2], [8, 9], [3, 4, 5], [2, 2], [0, 1], [2, 9]]
    n = 0
    for mod in (ids, ids[:1], []):
        for refs in refsets:
            out = {'static': [], 'dynamic': []}
            cells = {}

            def mkids(hs):
                return {'length': len(hs), 'capacity': len(hs) + 1,
                        'functionIDs': Ptr([{'hash': [h] + [0] * 19, 'functionIndex': 100 + k} for k, h in enumerate(hs)] + [{'hash': [255] * 20, 'functionIndex': -1}], 0)}

            def append(interp, args, node):
                tgt, fid = args[0], args[1]
                which = [k for k, c in cells.items() if isinstance(tgt, Ptr) and tgt.c is c]
                if len(which) != 1 or not isinstance(fid, dict):
                    raise pe.PEError('append to %r' % (tgt,))
                out[which[0]].append(fid['hash'][0])
                return 1

            def compare(interp, args, node):
                a_, b_ = args
                if not (isinstance(a_, dict) and isinstance(b_, dict)):
                    a_ = interp.load(a_.c, a_.k) if isinstance(a_, Ptr) else a_
                    b_ = interp.load(b_.c, b_.k) if isinstance(b_, Ptr) else b_
                x, y = a_['hash'][0], b_['hash'][0]
                return (x > y) - (x < y)
            it = pe.Interp([tu], {'wasmFunctionIDsAppend': append, 'wasmFunctionIDsCompareHashes': compare, 'fprintf': lambda i, a, n_: 0,
                                  'exit': pe.leaf_abort('exit'), 'abort': pe.leaf_abort('abort')})
            it.cur_tu = tu

            def setup():
                out['static'][:] = []
                out['dynamic'][:] = []
                cells['static'] = {'v': {'length': 0, 'capacity': 0, 'functionIDs': 0}}
                cells['dynamic'] = {'v': {'length': 0, 'capacity': 0, 'functionIDs': 0}}
                return ('wasmSplitStaticAndDynamicFunctions', [mkids(mod), mkids(refs), Ptr(cells['static'], 'v'), Ptr(cells['dynamic'], 'v')], {})
            try:
                paths = [p for p in it.explore(setup)]
            except (pe.PEError, IndexError, TypeError, KeyError) as e:
                raise AnalysisBroken('split function on module hashes %r, reference hashes %r: %s' % (mod, refs, e))
            n += 1
            if len(paths) != 1 or paths[0].aborted:
                return 'module hashes %r, reference hashes %r: %d paths%s' % (mod, refs, len(paths), ' (%s)' % paths[0].aborted if paths else ''), n
            want_s = [h for h in mod if h in refs]
            want_d = [h for h in mod if h not in refs]
            if out['static'] != want_s or out['dynamic'] != want_d:
                return ('a module with function hashes %r split against reference hashes %r gives static %r and dynamic %r; every function '
                        'belongs to exactly one list - static iff the reference has the same hash: %r / %r - a function in neither list is '
                        'written to no file, one in both is defined twice' % (mod, refs, out['static'], out['dynamic'], want_s, want_d)), n
    return None, n


def check_partition(chk):
    tu = astdb.dump_ast(astdb.src('w2c2/main.c'))
    chk.unit(tu)
    f = tu.functions.get('wasmSplitStaticAndDynamicFunctions')
    chk.require(f is not None, 'anchor wasmSplitStaticAndDynamicFunctions not found')
    chk.fn(f['name'])
    body = astdb.fn_body(f)
    params = [p.get('name') for p in astdb.fn_params(f)]
    chk.require(len(params) == 4, 'split function has %d parameters' % len(params))
    ids_p, ref_p, static_p, dyn_p = params
    # cursors: locals initialised from <param>.functionIDs
    cursor = {}
    for n in walk(body):
        if n.get('kind') == 'VarDecl' and n.get('init'):
            ini = astdb.expr_text(strip([c for c in kids(n) if c.get('kind')][-1], casts=True))
            if ini == ids_p + '.functionIDs':
                cursor['fn'] = n['name']
            elif ini == ref_p + '.functionIDs':
                cursor['ref'] = n['name']
    chk.require(set(cursor) == {'fn', 'ref'}, 'cursor variables of the split function not recognised: %r' % cursor)
    loops = [n for n in body.get('inner', []) if n.get('kind') in ('WhileStmt', 'ForStmt')]
    # decision on concrete hash-sorted lists (second decision, and the decision for a split of another shape)
    cbad, ncases = concrete_partition(tu)
    chk.expect(cbad is None, 'R09.3', 'partition@concrete', 'wasmSplitStaticAndDynamicFunctions: %s' % cbad, 'wasmSplitStaticAndDynamicFunctions:partition',
               detail_ok='%d (module, reference) hash lists: every function in exactly one list, static iff the hash is in the reference' % ncases)
    if len(loops) != 2:
        if cbad is None:
            chk.undecide('split function has %d top-level loops (expected merge loop + drain loop); it partitions the %d concrete hash lists '
                         'correctly, which does not decide all lists' % (len(loops), ncases))
        chk.partition_shape_skipped = True
        return
    cmpvar = None
    site = 'wasmSplitStaticAndDynamicFunctions'
    for li, loop in enumerate(loops):
        if loop['kind'] == 'ForStmt':
            cond_node, body_node, inc_node = loop['inner'][2], loop['inner'][4], loop['inner'][3]
        else:
            cond_node, body_node, inc_node = loop['inner'][-2], loop['inner'][-1], None
        cond = astdb.expr_text(strip(cond_node, casts=True))
        paths = iteration_paths(body_node, tu)
        if inc_node is not None and inc_node.get('kind'):
            inc_ev = _events(inc_node, tu)
            paths = [(c_, e_ if (e_ and e_[-1] == ('exit',)) else e_ + inc_ev) for c_, e_ in paths]
        for d in walk(body_node):
            if d.get('kind') == 'VarDecl' and d.get('init') and any(x.get('kind') == 'CallExpr' and astdb.callee_name(x) == 'wasmFunctionIDsCompareHashes' for x in walk(d)):
                call = [x for x in walk(d) if x.get('kind') == 'CallExpr'][0]
                args = [astdb.expr_text(strip(a, casts=True)) for a in astdb.call_args(call)]
                chk.expect(args == [cursor['fn'], cursor['ref']], 'R09.3', 'compare-operands',
                           'hash comparison is %s(%s): expected the current function against the current reference entry' % (astdb.callee_name(call), ', '.join(args)), site + ':compare')
                cmpvar = d['name']
        for conds, evs in paths:
            if evs and evs[-1] == ('exit',):
                continue
            label = 'loop%d[%s]' % (li, ' && '.join(('%s' if t else '!(%s)') % c for c, t in conds) or 'always')
            adv_fn = [e for e in evs if e == ('advance', cursor['fn'])]
            adv_ref = [e for e in evs if e == ('advance', cursor['ref'])]
            apps = [e for e in evs if e[0] == 'append']
            other = [e for e in evs if e[0] == 'assign']
            ok = len(adv_fn) == len(apps) <= 1 and not other
            if apps:
                ok = ok and apps[0][2] == '*' + cursor['fn'] and evs.index(apps[0]) < evs.index(adv_fn[0]) if adv_fn else False
                ok = ok and apps[0][1] in ('staticFunctions', 'dynamicFunctions', static_p, dyn_p)
            if not (adv_fn or adv_ref):
                ok = False      # no progress: the loop would not terminate
            chk.expect(ok, 'R09.3', label,
                       'path %s of the split loop performs %r: each advance of the function cursor must be preceded by exactly one append of '
                       '*%s to exactly one list, and every iteration must advance a cursor' % (label, evs, cursor['fn']), site + ':partition')
            if apps and apps[0][1] == static_p:
                # static only under hash equality: the path conditions must exclude < 0 and > 0 of the comparison (or state == 0)
                ctx = dict((c, t) for c, t in conds)
                eq = any(re.fullmatch(r'%s\s*==\s*0' % re.escape(cmpvar or '?'), c) and t for c, t in conds) or (
                    any(re.fullmatch(r'%s\s*<\s*0' % re.escape(cmpvar or '?'), c) and not t for c, t in conds) and
                    any(re.fullmatch(r'%s\s*>\s*0' % re.escape(cmpvar or '?'), c) and not t for c, t in conds))
                chk.expect(li == 0 and eq and len(adv_ref) == 1, 'R09.3', label + ':static-needs-equal-hash',
                           'a function is appended to the static list on path %s, which does not establish hash equality with the reference entry '
                           '(or does not consume that entry): it would be linked from the reference build although its body differs' % label,
                           site + ':static-equality')
            if li == 1:
                chk.expect(bool(apps) and apps[0][1] == dyn_p, 'R09.3', label + ':drain-dynamic',
                           'the drain loop must append every remaining function to the dynamic list; it does %r' % (evs,), site + ':drain')
        if li == 0:
            chk.expect(cursor['fn'] in cond and cursor['ref'] in cond and '&&' in cond, 'R09.3', 'merge-loop-condition',
                       'merge loop runs while %r; expected both cursors to be in range' % cond, site + ':merge-cond')
        else:
            chk.expect(re.fullmatch(r'%s\s*!=\s*\w+' % re.escape(cursor['fn']), cond) is not None, 'R09.3', 'drain-loop-condition',
                       'drain loop runs while %r; expected it to run until the function cursor reaches the end' % cond, site + ':drain-cond')


def check_hash_coverage(chk, tier):
    """R09.3 (hash part): block splitting of SHA1Update, decided for all lengths 0..200 and representative buffered counts"""
    tu = astdb.dump_ast(astdb.src('w2c2/sha1.c'))
    chk.unit(tu)
    chk.require('SHA1Update' in tu.functions and 'SHA1Transform' in tu.functions, 'anchor SHA1Update / SHA1Transform not found in sha1.c')
    chk.fn('SHA1Update')
    site = 'SHA1Update:coverage'
    j0s = list(range(64)) if tier == 'thorough' else [0, 1, 8, 55, 56, 63]
    n = 0
    bad = []
    for j0 in j0s:
        for length in range(0, 201):
            fed = []            # bytes given to the compression function, in order

            def setup(j0=j0, length=length):
                buf = [('old', k) for k in range(j0)] + [('junk', k) for k in range(j0, 64)]
                ctx = {'state': [0] * 5, 'count': j0 << 3, 'buffer': buf}
                data = [('in', k) for k in range(length)] + [('past-end', 0)]
                return ('SHA1Update', [Ptr({'v': ctx}, 'v'), Ptr(data, 0), length], {'ctx': ctx, 'fed': []})

            def transform(interp, args, node):
                p = args[1]
                blk = list(p.c[p.k:p.k + 64])
                interp.path.state['fed'].extend(blk)
                return None

            def memcpy(interp, args, node):
                d, s_, k = args[0], args[1], args[2]
                if not isinstance(k, int) or k < 0 or k > 64:
                    raise pe.PEError('memcpy of %r bytes' % (k,))
                for t in range(k):
                    d.c[d.k + t] = s_.c[s_.k + t]
                return d
            it = pe.Interp([tu], {'SHA1Transform': transform, 'memcpy': memcpy, '__builtin_memcpy': memcpy})
            try:
                paths = it.explore(setup)
            except (pe.PEError, IndexError) as e:
                bad.append('buffered %d, length %d: %s' % (j0, length, e))
                continue
            n += 1
            if len(paths) != 1 or paths[0].aborted:
                bad.append('buffered %d, length %d: %d paths' % (j0, length, len(paths)))
                continue
            st = paths[0].state
            want = [('old', k) for k in range(j0)] + [('in', k) for k in range(length)]
            nfull = (j0 + length) // 64
            rem = (j0 + length) % 64
            ok = st['fed'] == want[:64 * nfull] and st['ctx']['buffer'][:rem] == want[64 * nfull:] and st['ctx']['count'] == ((j0 + length) << 3)
            if not ok:
                bad.append('buffered %d bytes, update with %d bytes: the compression function received %d bytes (expected %d), %s'
                           % (j0, length, len(st['fed']), 64 * nfull,
                              'some input bytes never reach the hash' if len(st['fed']) < 64 * nfull or st['ctx']['buffer'][:rem] != want[64 * nfull:] else 'wrong order/count'))
    chk.expect(not bad, 'R09.3', 'hash-covers-every-byte',
               'SHA1Update does not feed every byte exactly once (%d of %d cases fail; first: %s): two function bodies that differ only in the '
               'skipped bytes get the same hash and a changed function is classified static' % (len(bad), n + len(bad), '; '.join(bad[:3])), site,
               detail_ok='%d (buffered, length) cases: every byte reaches the compression function exactly once, in order' % n)
    # the function hash is taken over exactly the body bytes
    rtu = astdb.dump_ast(astdb.src('w2c2/reader.c'))
    f = rtu.functions.get('wasmReadCodeSection')
    chk.require(f is not None, 'anchor wasmReadCodeSection not found')
    calls = [c for c in walk(astdb.fn_body(f)) if c.get('kind') == 'CallExpr' and astdb.callee_name(c) == 'SHA1']
    args = [[astdb.expr_text(strip(a, casts=True)) for a in astdb.call_args(c)] for c in calls]
    chk.expect(args == [['localsDeclarationsOffset', 'codeSize', 'function->hash']], 'R09.3', 'hash-of-whole-body',
               'function hash is computed as SHA1(%r); expected the bytes from the locals declarations over the declared code size into function->hash' % (args,),
               'wasmReadCodeSection:hash')
    stu = astdb.dump_ast(astdb.src('w2c2/main.c'))
    cmpf = None
    for t in (stu, rtu):
        if 'wasmFunctionIDsCompareHashes' in t.functions and astdb.fn_body(t.functions['wasmFunctionIDsCompareHashes']) is not None:
            cmpf = (t, t.functions['wasmFunctionIDsCompareHashes'])
    chk.require(cmpf is not None, 'anchor wasmFunctionIDsCompareHashes not found')
    mc = [c for c in walk(astdb.fn_body(cmpf[1])) if c.get('kind') == 'CallExpr' and astdb.callee_name(c) in ('memcmp', '__builtin_memcmp')]
    ok = len(mc) == 1 and astdb.const_int(astdb.call_args(mc[0])[2], cmpf[0]) == 20
    chk.expect(ok, 'R09.3', 'hash-compare-full-digest', 'hash comparison does not compare all 20 digest bytes (%d memcmp calls)' % len(mc), 'wasmFunctionIDsCompareHashes')


# ---- R09.4 ----------------------------------------------------------------------------------------

def canon(node, tu):
    """canonical S-expression of a clang statement/expression: no parentheses, braces, null statements, locations"""
    k = node.get('kind')
    if k in ('ParenExpr',):
        return canon(kids(node)[0], tu)
    if k == 'CompoundStmt':
        inner = [canon(c, tu) for c in node.get('inner', []) if c.get('kind') and c.get('kind') != 'NullStmt']
        inner = [x for x in inner if x != ('seq',)]
        flat = []
        for x in inner:
            if x and x[0] == 'seq':
                flat.extend(x[1:])
            else:
                flat.append(x)
        return ('seq',) + tuple(flat)
    if k == 'NullStmt':
        return ('seq',)
    attrs = []
    for a in ('opcode', 'name', 'value', 'castKind', 'isArrow', 'isPostfix'):
        if a in node:
            attrs.append((a, node[a]))
    if k == 'DeclRefExpr':
        attrs.append(('ref', node['referencedDecl'].get('name')))
    if k in ('LabelStmt',):
        attrs.append(('label', node.get('name')))
    if k == 'GotoStmt':
        attrs.append(('target', node.get('targetLabelDeclId')))
    ty = tu.desugar(astdb.qtype(node)) if 'type' in node else ''
    subs = [canon(c, tu) if c.get('kind') else ('none',) for c in node.get('inner', [])]
    # a controlled statement is the same program with or without braces around it
    body_from = {'IfStmt': 1, 'WhileStmt': 1, 'DoStmt': 0, 'ForStmt': 4, 'LabelStmt': 0, 'CaseStmt': 1, 'DefaultStmt': 0, 'SwitchStmt': 1}.get(k)
    if body_from is not None:
        for i_ in range(body_from, len(subs)):
            if k == 'DoStmt' and i_ != 0:
                continue
            if subs[i_] and subs[i_][0] != 'seq' and subs[i_] != ('none',):
                subs[i_] = ('seq', subs[i_])
    return (k, ty, tuple(attrs)) + tuple(subs)


def check_neutrality(chk, tus):
    it = emit.make_interp(tus)
    vts = c01.value_types(it)
    tabs = c01.read_type_tables(chk, tus[0], it, vts, 'R09.4')
    tpls = c11.all_templates(chk, it, tabs, [(0, 0), (1, 0), (0, 1), (1, 1)]) + c11.control_scripts(it)
    chk.require(len(tpls) >= 700, 'only %d templates extracted' % len(tpls))
    h = templates.Harness(base_flags=['-DWASM_THREADS_PTHREADS'])
    by = {}
    for name, text, row in tpls:
        h.add(name, text)
        by[name] = (text, row)
    tu = h.parse('c09')
    chk.unit(tu)
    n = 0
    for name, (text, row) in sorted(by.items()):
        m = re.search(r'_p0(_m\d.*|)$', name)
        if not m:
            continue
        twin = name[:m.start()] + '_p1' + m.group(1)
        label = row['name'] if row else name
        if twin not in by:
            chk.fail('R09.4', name + ':has-pretty-twin', 'no pretty-printed template corresponds to %s (%r)' % (name, text.strip()), 'template/' + label)
            continue
        a = canon(astdb.fn_body(tu.fn(name)), tu)
        b = canon(astdb.fn_body(tu.fn(twin)), tu)
        # goto targets are ids: compare by label name instead
        a, b = _relabel(a, tu.fn(name)), _relabel(b, tu.fn(twin))
        n += 1
        chk.expect(a == b, 'R09.4', name + ':pretty-equal',
                   'the pretty and compact templates of %s are different C programs after parsing: %r vs %r' % (label, text.strip(), by[twin][0].strip()),
                   'template/' + label + ':pretty')
    for name, (text, row) in sorted(by.items()):
        m = re.search(r'_m0(_.*|)$', name)
        if not m or '_p' not in name:
            continue
        twin = name[:m.start()] + '_m1' + m.group(1)
        if twin not in by:
            continue
        t1 = re.sub(r'\bmod_(?=[A-Za-z_]\w*\s*\()', '', by[twin][0])
        n += 1
        chk.expect(t1 == text, 'R09.4', name + ':prefix-only',
                   'symbol prefixing changes more than function identifiers in %s: %r vs %r' % (row['name'] if row else name, text.strip(), by[twin][0].strip()),
                   'template/' + (row['name'] if row else name) + ':prefix')
    return n


def _relabel(c, fdecl):
    labels = {}
    for n in walk(astdb.fn_body(fdecl)):
        if n.get('kind') == 'LabelStmt':
            labels[n.get('declId')] = n.get('name')

    def rec(x):
        if isinstance(x, tuple):
            if len(x) == 2 and x[0] == 'target':
                return ('target', labels.get(x[1], x[1]))
            return tuple(rec(y) for y in x)
        return x
    return rec(c)


# ---- R09.5 ----------------------------------------------------------------------------------------

def check_twins(chk, tus, rule='R09.5'):
    ctu = tus[0]
    it = c06.make(tus)
    pairs = []
    for name in sorted(ctu.functions):
        m = re.match(r'wasmCWriteFile(\w+)$', name)
        if m and 'wasmCWriteString' + m.group(1) in ctu.functions and astdb.fn_body(ctu.functions[name]) is not None:
            pairs.append((name, 'wasmCWriteString' + m.group(1)))
    chk.require(len(pairs) >= 6, 'only %d File/String emitter pairs found: %r' % (len(pairs), pairs))

    def module():
        return M.build(it, types=[([], [])], func_imports=[('env', 'imp_0', 0), ('wasi_snapshot_preview1', 'fd-write', 0)], functions=[0, 0],
                       global_imports=[('env', 'g__x', 'i32', True)], globals_=[('i32', True, M.i32_const(1))],
                       memory_imports=[('env', 'mem', 1, 2, False)], memories=[(1, 2, False)],
                       table_imports=[('env', 'tab.le', 1, 2, False)], tables=[(1, 2, False)])
    names = ['plain', 'a_b', 'a__b', 'x-y', 'X1', 'caf\xc3\xa9', '_', '__', 'a.b$c', '9z', 'end_', '_._', 'cfg_._base', 'a_$_b', '_X_', 'a__.__b']
    # for twins that take just a name (the escapers themselves): every string of up to 4 characters over a plain letter, the
    # underscore, a character that is escaped and the escape letter - the escaping rules only look at such neighbourhoods
    import itertools as _it
    exhaustive = [''.join(t) for k_ in range(1, 5) for t in _it.product('a_.X', repeat=k_)]
    n = 0
    for fa, fb in pairs:
        pa = astdb.fn_params(ctu.functions[fa])[1:]
        pb = astdb.fn_params(ctu.functions[fb])[1:]
        ta = [ctu.desugar(astdb.qtype(p)) for p in pa]
        site = fa + '/' + fb
        # parameters are matched by position; a parameter that only one twin has (an optional override such as variableName,
        # for which NULL selects the default) is passed as NULL
        names_a = [p.get('name') for p in pa]
        names_b = [p.get('name') for p in pb]
        only_a = [i for i, p in enumerate(pa) if ctu.desugar(astdb.qtype(p)).replace('const ', '').strip() == 'char *' and len(pa) > len(pb)
                  and p.get('name') not in names_b and i < len(pa)]
        core_a = [p for i, p in enumerate(pa) if i not in only_a]
        tca = [ctu.desugar(astdb.qtype(p)) for p in core_a]
        tb = [ctu.desugar(astdb.qtype(p)) for p in pb]
        if not chk.expect(tca == tb, rule, site + ':signature', 'twin emitters take different parameters: %r vs %r' % (ta, tb), site):
            continue
        grids = []
        for p, t in zip(core_a, tca):
            t0 = t.replace('const ', '').strip()
            nm = p.get('name', '')
            if 'WasmModule' in t0:
                grids.append(['<module>'])
            elif t0 == 'char *':
                grids.append(['mod'] if 'module' in nm.lower() and 'Name' in nm else names)
            elif t0 in ('_Bool', 'bool', 'enum bool'):
                grids.append([0, 1])
            elif 'WasmValueType' in t0:
                grids.append([0, 1, 2, 3])
            elif ct_int(t0):
                grids.append([0, 1, 2, 7, 4294967295])
            else:
                grids = None
                break
        if grids is None:
            chk.note('twin pair %s: parameter types %r not synthesised' % (site, ta))
            continue
        if len(grids) == 1 and grids[0] is names:
            grids = [names + exhaustive]
        import itertools
        for combo in itertools.product(*grids):
            vals = [Ptr({'v': module()}, 'v') if c == '<module>' else c for c in combo]
            args_a = list(vals)
            for i in only_a:
                args_a.insert(i, 0)
            try:
                txt_a = c06.emit_text(it, fa, lambda out: [out] + args_a)
            except AnalysisBroken as e:
                chk.note('twin %s%r: file variant not evaluable (%s)' % (fa, combo, e))
                continue
            vals_b = [Ptr({'v': module()}, 'v') if c == '<module>' else c for c in combo]
            txt_b = builder_text(it, fb, lambda sbp: [sbp] + vals_b)
            n += 1
            chk.expect(txt_a == txt_b, rule, '%s%r' % (site, combo),
                       '%s writes %r but %s writes %r for arguments %r: declarations (written to the file) and uses (written through the '
                       'builder) would name different C identifiers' % (fa, txt_a, fb, txt_b, combo), site)
    return n


def ct_int(t):
    return astdb.int_type_info(t) is not None


def builder_text(it, fname, mkargs):
    def setup():
        sb = {'string': 0, 'length': 0, 'capacity': 0}
        cell = {'v': sb}
        emit._sb_init(it, [Ptr(cell, 'v')], None)
        return (fname, mkargs(Ptr(cell, 'v')), {'sb': sb, 'stream': emit.Stream([])})
    paths = it.explore(setup)
    good = [p for p in paths if not p.aborted and p.ret == 1]
    if len(good) != 1:
        raise AnalysisBroken('%s: %d paths, %d successful' % (fname, len(paths), len(good)))
    parts = good[0].state['sb']['_text'].parts
    if any(not isinstance(p, str) for p in parts):
        return repr(parts)
    return ''.join(parts)


# ---- R09.7 ----------------------------------------------------------------------------------------

def function_defs(text):
    """{name: full definition text} of non-static function definitions f<k> / <mod>_f<k> in a rendered C file"""
    out = {}
    for m in re.finditer(r'(?m)^(?!static)([A-Za-z_][\w \*]*?)\b((?:mod_)?f\d+)\(([^;{}]*)\)\s*\{', text):
        i = m.end()
        depth = 1
        while i < len(text) and depth:
            depth += (text[i] == '{') - (text[i] == '}')
            i += 1
        out.setdefault(m.group(2), []).append(text[m.start():i])
    return out


def _is_zero_test(cond, name, tu):
    """cond is true exactly when the variable `name` is zero: name == 0, 0 == name, !name"""
    c = strip(cond, casts=True)
    if c.get('kind') == 'UnaryOperator' and c.get('opcode') == '!':
        return astdb.expr_text(strip(kids(c)[0], casts=True)) == name
    if c.get('kind') == 'BinaryOperator' and c.get('opcode') == '==':
        a, b = [strip(x, casts=True) for x in kids(c)]
        return (astdb.expr_text(a) == name and astdb.const_int(b, tu) == 0) or (astdb.expr_text(b) == name and astdb.const_int(a, tu) == 0)
    return False


def check_whole_outputs(chk, tier):
    import os
    import subprocess
    import tempfile
    from .. import render as R
    tus = R.sequential_tus(chk)
    it = c06.make(tus)
    mk = lambda: R.sample_module(it)
    K = 6
    all_ids = list(range(K))
    site = 'wasmCWriteModuleImplementation'
    ref = {}
    for pretty in (0, 1):
        for multiple in (0, 1):
            files = R.render(it, mk, K, all_ids, [], pretty, multiple)
            chk.expect(sorted(files) == ['mod.c', 'mod.h'], 'R09.7', 'single-file[p%d,m%d]' % (pretty, multiple),
                       'functionsPerFile = number of functions (what main() substitutes for -f 0) without reference module writes %r; expected one implementation file and the header' % sorted(files), site)
            ref[(pretty, multiple)] = function_defs(files['mod.c'])
            chk.expect(len(ref[(pretty, multiple)]) == K and all(len(v) == 1 for v in ref[(pretty, multiple)].values()), 'R09.7',
                       'single-file-defs[p%d,m%d]' % (pretty, multiple), 'single-file output defines %r' % {k: len(v) for k, v in ref[(pretty, multiple)].items()}, site)
    # main() maps -f 0 to "all functions in one file"
    mtu = astdb.dump_ast(astdb.src('w2c2/main.c'))
    mb = astdb.fn_body(mtu.functions['main'])
    norm = [n_ for n_ in walk(mb) if n_.get('kind') == 'IfStmt' and _is_zero_test(n_['inner'][0], 'functionsPerFile', mtu)
            and any(a.get('kind') == 'BinaryOperator' and a.get('opcode') == '=' and astdb.expr_text(strip(kids(a)[0])) == 'functionsPerFile'
                    and astdb.expr_text(strip(kids(a)[1], casts=True)).endswith('functions.count') for a in walk(n_['inner'][1]))]
    chk.expect(len(norm) == 1, 'R09.7', 'f0-means-single-file', 'main() does not replace -f 0 by the number of functions (found %d such statements)' % len(norm), 'main:functions-per-file')
    splits = [(all_ids, []), ([3, 0, 5, 1, 4, 2], []), ([0, 2, 4], [1, 3, 5]), ([], all_ids), ([5], [4, 3, 2, 1, 0])]
    fpfs = list(range(0, K + 2))
    modes = [(0, 0), (1, 0), (0, 1), (1, 1)] if tier == 'thorough' else [(0, 0), (1, 1)]
    witness = []
    n = 0
    for static, dynamic in splits:
        for fpf in fpfs:
            for pretty, multiple in modes:
                label = 'f=%d,static=%r,dynamic=%r,p%d,m%d' % (fpf, static, dynamic, pretty, multiple)
                try:
                    files = R.render(it, mk, fpf, static, dynamic, pretty, multiple)
                except pe.OutOfBounds as e:
                    chk.fail('R09.7', 'in-bounds[%s]' % label, 'writing the output for %s: %s - the writer indexes a module or function-ID array '
                             'past its end, so what is emitted depends on whatever follows it in memory' % (label, e), site + ':out-of-bounds')
                    continue
                n += 1
                defs = {}
                for name, text in files.items():
                    if name.endswith('.c'):
                        for fn_, texts in function_defs(text).items():
                            for t in texts:
                                defs.setdefault(fn_, []).append((name, t))
                want = set(ref[(pretty, multiple)])
                once = set(defs) == want and all(len(v) == 1 for v in defs.values())
                chk.expect(once, 'R09.7', 'once[%s]' % label,
                           'functions defined across %r: %r; every defined function must be emitted exactly once (expected %r)'
                           % (sorted(files), {k: [x[0] for x in v] for k, v in sorted(defs.items())}, sorted(want)), site + ':once')
                same = all(len(v) == 1 and v[0][1] == ref[(pretty, multiple)][k][0] for k, v in defs.items() if k in ref[(pretty, multiple)])
                chk.expect(same, 'R09.7', 'same-text[%s]' % label,
                           'a function text differs from the single-file output: %r' % [k for k, v in defs.items() if k in ref[(pretty, multiple)] and v[0][1] != ref[(pretty, multiple)][k][0]],
                           site + ':same-text')
                # numbering and emptiness of split files
                for prefix in 'sd':
                    nums = sorted(int(nm[1:11]) for nm in files if re.fullmatch(prefix + r'\d{10}\.c', nm))
                    chk.expect(nums == list(range(len(nums))), 'R09.7', 'numbering[%s,%s]' % (label, prefix),
                               'split files %s are numbered %r (must be 0.. without gaps)' % (prefix, nums), site + ':numbering')
                empty = [nm for nm in files if re.fullmatch(r'[sd]\d{10}\.c', nm) and not function_defs(files[nm])]
                chk.expect(not empty, 'R09.7', 'no-empty-file[%s]' % label, 'split files without any function: %r' % empty, site + ':empty-file')
                other = [nm for nm in files if not re.fullmatch(r'[sd]\d{10}\.c|mod\.c|mod\.h', nm)]
                chk.expect(not other, 'R09.7', 'file-names[%s]' % label, 'unexpected output files %r' % other, site + ':file-names')
                if (pretty, multiple) == modes[0] or tier == 'thorough':
                    witness.append((label, files))
    # formatting neutrality of complete outputs: pretty and compact single-file outputs are the same C program
    for multiple in (0, 1):
        asts = {}
        for pretty in (0, 1):
            files = R.render(it, mk, K, all_ids, [], pretty, multiple)
            text = files['mod.h'] + '\n' + files['mod.c'].replace('#include "mod.h"', '')
            wtu = astdb.dump_ast('<whole-output:p%d,m%d>' % (pretty, multiple), flags=['-std=gnu89', '-DWASM_THREADS_PTHREADS', '-I' + astdb.src('w2c2')],
                                 text=text, config='whole')
            asts[pretty] = {name: _relabel(canon(astdb.fn_body(f), wtu), f) for name, f in wtu.functions.items()
                            if (astdb.file_of(f) or '').startswith('<') or name.startswith(('mod', 'f'))}
        names0 = {n_ for n_ in asts[0] if re.match(r'(mod|f\d)', n_)}
        names1 = {n_ for n_ in asts[1] if re.match(r'(mod|f\d)', n_)}
        chk.expect(names0 == names1 and len(names0) >= K + 4, 'R09.4', 'whole-output-functions[m%d]' % multiple,
                   'pretty and compact outputs define different functions: %r vs %r' % (sorted(names0), sorted(names1)), site + ':pretty')
        for n_ in sorted(names0 & names1):
            chk.expect(asts[0][n_] == asts[1][n_], 'R09.4', 'whole-output[%s,m%d]' % (n_, multiple),
                       'function %s of the generated module is a different C program with and without -p (typed ASTs differ)' % n_, site + ':pretty')
    # compile witness: every file on its own against the generated header
    picked = witness if tier == 'thorough' else witness[::5]
    nc = 0
    with tempfile.TemporaryDirectory(prefix='w2c2-c09-') as d:
        for wi, (label, files) in enumerate(picked):
            sub = os.path.join(d, str(wi))
            os.makedirs(sub)
            for nm, text in files.items():
                with open(os.path.join(sub, nm), 'w') as f:
                    f.write(text)
            for cc in (('gcc', 'clang') if tier == 'thorough' or wi % 2 == 0 else ('gcc',)):
                cfiles = sorted(nm for nm in files if nm.endswith('.c'))
                r = subprocess.run([cc, '-std=gnu89', '-fsyntax-only', '-DWASM_THREADS_PTHREADS', '-I' + astdb.src('w2c2'), '-I' + sub,
                                    '-Werror=implicit-function-declaration', '-Werror=incompatible-pointer-types', '-Werror=int-conversion',
                                    '-Wno-unused-value', '-Wno-unused-label'] + [os.path.join(sub, c) for c in cfiles],
                                   capture_output=True, text=True, timeout=600)
                nc += len(cfiles)
                errs = [l for l in r.stderr.splitlines() if 'error' in l][:3]
                chk.expect(r.returncode == 0, 'R09.7', 'compiles[%s,%s]' % (label, cc),
                           'an emitted file does not compile on its own against the generated header (%s): %s' % (cc, ' | '.join(errs)[:400]),
                           site + ':compile')
    chk.extra['whole_outputs_rendered'] = n
    chk.extra['files_compiled'] = nc


# ---- R09.9 ----------------------------------------------------------------------------------------

_GETOPT_DRIVER = """
#include "getopt_impl.h"
int w2c2_verif_drive(int argc, char **argv, const char *ostr, int *outc, char **outarg, int *outind) {
    int n = 0, c;
    while ((c = getopt(argc, argv, ostr)) != -1) {
        outc[n] = c; outarg[n] = optarg; outind[n] = optind; n++;
        if (n >= 30) break;
    }
    outind[n] = optind;
    return n;
}
"""


def posix_getopt(argv, ostr):
    """reference (POSIX XBD 12.2 / getopt()): sequence of (letter or '?', argument or None) and the final optind"""
    out = []
    i = 1
    while i < len(argv):
        a = argv[i]
        if len(a) < 2 or a[0] != '-':
            break
        if a == '--':
            i += 1
            break
        k = 1
        nxt = i + 1
        while k < len(a):
            ch = a[k]
            k += 1
            pos = ostr.find(ch) if ch != ':' else -1
            if pos < 0:
                out.append(('?', None))
                continue
            if pos + 1 < len(ostr) and ostr[pos + 1] == ':':
                if k < len(a):
                    out.append((ch, a[k:]))
                elif nxt < len(argv):
                    out.append((ch, argv[nxt]))
                    nxt += 1
                else:
                    out.append(('?', None))
                k = len(a)
            else:
                out.append((ch, None))
        i = nxt
    return out, i


def check_bundled_getopt(chk, tier):
    """R09.9: the option combination the user wrote is the option combination main() sees, whichever getopt the build uses: the bundled
    getopt (builds without <getopt.h>) is partially evaluated with main's option string on every command line of up to 3 (thorough: 4)
    argument words drawn from clustered flags, attached and detached option arguments, "--", unknown letters and operands; the
    sequence of (option, argument) results and the final optind must equal what POSIX specifies for getopt - in particular "-pm" is
    "-p -m" and "-f2" is "-f 2" """
    import itertools
    mtu = astdb.dump_ast(astdb.src('w2c2/main.c'))
    strs = []
    for n in walk(mtu.root):
        if n.get('kind') == 'VarDecl' and n.get('name') == 'optString':
            for s_ in walk(n):
                if s_.get('kind') == 'StringLiteral':
                    strs.append(astdb.c_unescape(s_['value']))
    mainf = mtu.functions.get('main')
    chk.require(mainf is not None, 'anchor main not found in main.c')
    gcalls = [c for c in walk(astdb.fn_body(mainf)) if c.get('kind') == 'CallExpr' and astdb.callee_name(c) == 'getopt']
    chk.require(len(gcalls) == 1 and strs, 'main() calls getopt %d times; option string literal(s) %r' % (len(gcalls), strs))
    src = astdb.src('w2c2/main.c')
    with open(src) as f:
        uses_bundled = 'getopt_impl.h' in f.read()
    if not uses_bundled:
        chk.ok('R09.9', 'no-bundled-getopt', 'main.c does not include a bundled getopt')
        return
    import os
    tu = astdb.dump_ast(os.path.join(os.path.dirname(src), 'verif_getopt_driver.c'), flags=['-std=gnu89', '-I' + os.path.dirname(src)],
                        text=_GETOPT_DRIVER)
    chk.unit(tu)
    chk.require('getopt' in tu.functions and astdb.fn_body(tu.functions['getopt']) is not None, 'bundled getopt has no body')
    chk.fn('getopt')
    ostr = max(strs, key=len)
    flags = [c for i_, c in enumerate(ostr) if c != ':' and not (i_ + 1 < len(ostr) and ostr[i_ + 1] == ':')]
    argopts = [c for i_, c in enumerate(ostr) if c != ':' and i_ + 1 < len(ostr) and ostr[i_ + 1] == ':']
    chk.require(len(flags) >= 3 and len(argopts) >= 2, 'option string %r: %d flags, %d options with argument' % (ostr, len(flags), len(argopts)))
    f1, f2, f3 = flags[0], flags[1], flags[2]
    a1, a2 = argopts[0], argopts[1]
    words = ['-' + f1, '-' + f2, '-' + f1 + f2, '-' + f2 + f1, '-' + f1 + f2 + f3, '-' + a1 + '7', '-' + a1, '-' + f1 + a1 + '7', '-' + f1 + a1,
             '-' + a2, '--', '-', 'in.wasm', '-Z', '-' + f1 + 'Z' + f2, '7']
    maxn = 4 if tier == 'thorough' else 3
    if tier != 'thorough':
        words = [w for w in words if w not in ('-' + f2 + f1, '-' + a2)]

    def cstr(t):
        return Ptr([ord(c) for c in t] + [0], 0)

    def strchr(interp, args, node):
        p_, c_ = args[0], args[1]
        if not isinstance(p_, Ptr) or not isinstance(c_, int):
            raise pe.PEError('strchr(%r, %r)' % (p_, c_))
        k = p_.k
        while True:
            if p_.c[k] == (c_ & 0xff):
                return Ptr(p_.c, k)
            if p_.c[k] == 0:
                return 0
            k += 1
    it = pe.Interp([tu], {'strchr': strchr, '__builtin_strchr': strchr, 'printf': lambda i, a, n: 0})
    it.program_start = True
    n = 0
    bad = []
    for ln in range(0, maxn + 1):
        for combo in itertools.product(words, repeat=ln):
            argv = ['w2c2'] + list(combo)
            want, wind = posix_getopt(argv, ostr)
            ptrs = [cstr(a) for a in argv]

            def setup(ptrs=ptrs, argv=argv):
                outc = [None] * 32
                outarg = [None] * 32
                outind = [None] * 32
                st = dict(outc=outc, outarg=outarg, outind=outind)
                return ('w2c2_verif_drive', [len(argv), Ptr(ptrs + [0], 0), cstr(ostr), Ptr(outc, 0), Ptr(outarg, 0), Ptr(outind, 0)], st)
            try:
                paths = [p_ for p_ in it.explore(setup)]
            except (pe.PEError, IndexError) as e:
                raise AnalysisBroken('bundled getopt on %r: %s' % (argv, e))
            if len(paths) != 1 or paths[0].aborted or not isinstance(paths[0].ret, int):
                raise AnalysisBroken('bundled getopt on %r: %d paths, %r' % (argv, len(paths), paths[0].aborted))
            st = paths[0].state
            k = paths[0].ret
            got = []
            for j in range(k):
                c_ = st['outc'][j]
                a_ = st['outarg'][j]
                if isinstance(a_, Ptr):
                    t = []
                    q = a_.k
                    while a_.c[q] != 0:
                        t.append(chr(a_.c[q]))
                        q += 1
                    a_ = ''.join(t)
                elif a_ in (0, None):
                    a_ = None
                got.append((chr(c_) if isinstance(c_, int) else repr(c_), a_ if chr(c_) != '?' else None))
            gind = st['outind'][k]
            n += 1
            if (got, gind) != (want, wind) and len(bad) < 5:
                bad.append('command line %r: bundled getopt yields %r and leaves optind=%r; POSIX getopt (the system one the default build uses) '
                           'yields %r, optind=%d' % (' '.join(argv[1:]), got, gind, want, wind))
    chk.require(n >= 1000, 'only %d command lines evaluated' % n)
    chk.expect(not bad, 'R09.9', 'bundled-getopt-agrees-with-posix',
               'the bundled getopt (builds without <getopt.h>) parses command lines differently from POSIX getopt: %s - the option combination '
               'the translator runs with is not the one the user wrote, so the same command line gives different output in the two build '
               'configurations' % '; '.join(bad[:2]), 'getopt_impl.h:getopt',
               detail_ok='%d command lines over %d words: same (option, argument) sequence and final optind as POSIX getopt' % (n, len(words)))



def check_option_arms(chk):
    """R09.11: the option combination the user wrote is the option combination that takes effect: in main's option switch every
    statement is reached for exactly one option letter (no arm falls through into the next one), and no two arms assign the same
    variable - otherwise one option silently implies or overrides another"""
    from . import c20
    mtu = astdb.dump_ast(astdb.src('w2c2/main.c'))
    mainf = mtu.functions.get('main')
    chk.require(mainf is not None, 'anchor main not found')
    body = astdb.fn_body(mainf)
    sws = [n for n in walk(body) if n.get('kind') == 'SwitchStmt' and
           any(c.get('kind') == 'CaseStmt' for c in walk(n))]
    gvar = None
    for n in walk(body):
        if n.get('kind') == 'BinaryOperator' and n.get('opcode') == '=' and any(c.get('kind') == 'CallExpr' and astdb.callee_name(c) == 'getopt' for c in walk(kids(n)[1])):
            gvar = astdb.ref_name(kids(n)[0])
    sws = [sw for sw in sws if gvar and astdb.ref_name(astdb.strip(kids(sw)[0], casts=True)) == gvar]
    chk.require(len(sws) == 1, 'main has %d switch statements over the getopt result' % len(sws))
    runs = c20.switch_arm_runs(sws[0], mtu)
    writers = {}
    n = 0
    for labels, st in runs:
        names = sorted(('-%s' % chr(v)) if isinstance(v, int) and 32 < v < 127 else str(v) for v in labels)
        n += 1
        chk.expect(len(labels) <= 1, 'R09.11', 'option-arm-single-entry@%s' % (astdb.loc_str(st) or '?').split(':')[-1],
                   'a statement of main\'s option switch is reached for the options %s: an arm falls through into the next one, so one option '
                   'also has the effect of the other' % ', '.join(names), 'main:option-switch', astdb.loc_str(st))
        for x in walk(st):
            if x.get('kind') in ('BinaryOperator', 'CompoundAssignOperator') and x.get('opcode', '').endswith('=') and x.get('opcode') not in ('==', '!=', '<=', '>='):
                v = astdb.ref_name(astdb.strip(kids(x)[0]))
                if v:
                    writers.setdefault(v, set()).update(labels)
    for v, ls in sorted(writers.items()):
        names = sorted(('-%s' % chr(x)) if isinstance(x, int) and 32 < x < 127 else str(x) for x in ls)
        chk.expect(len(ls) <= 1, 'R09.11', 'option-variable:%s' % v,
                   'the option variable %s is assigned on the arms of %s: these options are not independent' % (v, ', '.join(names)), 'main:option-switch')
    chk.require(n >= 6, 'only %d statements in the option switch' % n)


def check_option_string(chk, rule='R09.12'):
    """the getopt option string and the option switch of main agree: an option whose arm reads optarg is declared with ':' (it takes an
    argument) and one whose arm does not read optarg is declared without - otherwise `-r ref.wasm in.wasm out.c` is parsed with
    ref.wasm as the first operand: the module and output paths shift by one, and the translator writes to a file the user named
    as input"""
    mtu = astdb.dump_ast(astdb.src('w2c2/main.c'))
    mainf = mtu.functions.get('main')
    chk.require(mainf is not None, 'anchor main not found')
    body = astdb.fn_body(mainf)
    gcalls = [c for c in walk(body) if c.get('kind') == 'CallExpr' and astdb.callee_name(c) == 'getopt']
    chk.require(len(gcalls) == 1, 'main() calls getopt %d times' % len(gcalls))
    ostr = None
    a2 = strip(astdb.call_args(gcalls[0])[2], casts=True)
    lit = astdb.string_value(a2)
    if lit is None:
        nm = astdb.ref_name(a2)
        for n_ in walk(mtu.root):
            if n_.get('kind') == 'VarDecl' and n_.get('name') == nm:
                for s_ in walk(n_):
                    if s_.get('kind') == 'StringLiteral':
                        lit = astdb.c_unescape(s_['value'])
    chk.require(isinstance(lit, str) and lit, 'option string of the getopt call not found')
    ostr = lit.lstrip('+-:')
    takes = {c: (i_ + 1 < len(ostr) and ostr[i_ + 1] == ':') for i_, c in enumerate(ostr) if c != ':'}
    from . import c20
    sws = [n_ for n_ in walk(body) if n_.get('kind') == 'SwitchStmt' and any(c.get('kind') == 'CaseStmt' for c in walk(n_))]
    chk.require(len(sws) >= 1, 'main has no option switch')
    uses = {}
    for labels, st in c20.switch_arm_runs(sws[0], mtu):
        u = any(x.get('kind') == 'DeclRefExpr' and (x.get('referencedDecl') or {}).get('name') == 'optarg' for x in walk(st))
        for v in labels:
            if isinstance(v, int) and 32 < v < 127 and chr(v) not in '?:':
                uses[chr(v)] = uses.get(chr(v), False) or u
    n = 0
    for c, u in sorted(uses.items()):
        n += 1
        ok = c in takes and takes[c] == u
        chk.expect(ok, rule, 'option-string:-%s' % c,
                   'option -%s: its arm in main %s optarg, the option string %r declares it %s - %s' % (
                       c, 'reads' if u else 'does not read', lit, 'not at all' if c not in takes else 'with an argument' if takes.get(c) else
                       'without an argument', 'the word after it is taken as the first operand, so input module and output path shift by one '
                       '(the translator then writes to the path the user gave as input)' if u else 'it swallows the following word'),
                   'main:option-string')
    chk.require(n >= 6, 'only %d option letters found in the option switch' % n)


def check_worker_resources(chk, tu):
    """the workers run the same recursive writers as the sequential path, on modules of any nesting depth: they are created with
    default thread attributes (no reduced stack), so that what translates with -f 0 also translates when a worker writes it"""
    n = 0
    for name, f in sorted(tu.functions.items()):
        if not (astdb.file_of(f) or '').startswith(astdb.REPO) or astdb.fn_body(f) is None:
            continue
        for c in walk(astdb.fn_body(f)):
            if c.get('kind') != 'CallExpr':
                continue
            cn = astdb.callee_name(c) or ''
            if cn == 'pthread_create':
                n += 1
                attr = strip(astdb.call_args(c)[1], casts=True)
                is_null = astdb.const_int(attr, tu) == 0 or astdb.expr_text(attr).replace(' ', '') in ('NULL', '(void*)0', '0')
                if not is_null:
                    # attributes are acceptable when the only thing ever set on them is a stack at least as large as the usual main stack
                    sets = [astdb.callee_name(x) for x in walk(astdb.fn_body(f)) if x.get('kind') == 'CallExpr' and
                            (astdb.callee_name(x) or '').startswith('pthread_attr_set')]
                    big = [x for x in walk(astdb.fn_body(f)) if x.get('kind') == 'CallExpr' and astdb.callee_name(x) == 'pthread_attr_setstacksize' and
                           (astdb.const_int(strip(astdb.call_args(x)[-1], casts=True), tu) or 0) >= 8 * 1024 * 1024]
                    is_null = bool(sets) and len(sets) == len(big)
                chk.expect(is_null, 'R09.1', '%s:thread-attributes' % name,
                           '%s creates its worker with thread attributes %r; with anything but the defaults (NULL) the worker may have fewer '
                           'resources (stack) than the thread that writes the single-file output' % (name, astdb.expr_text(attr)),
                           '%s:thread-attributes' % name, astdb.loc_str(c))
            elif re.match(r'pthread_attr_set(stacksize|stack|guardsize)$', cn):
                size = astdb.const_int(strip(astdb.call_args(c)[-1], casts=True), tu) if cn == 'pthread_attr_setstacksize' else None
                if size is not None and size >= 8 * 1024 * 1024:
                    chk.ok('R09.1', '%s:%s' % (name, cn), 'explicit worker stack of %d bytes (not below the usual main-thread stack)' % size)
                    continue
                chk.fail('R09.1', '%s:%s' % (name, cn), '%s calls %s: the worker threads get a stack that differs from the main thread\'s, so a '
                         'deeply nested (valid) function that translates into one file can overflow the stack when -f routes it through a '
                         'worker' % (name, cn), '%s:thread-stack' % name, astdb.loc_str(c))
    chk.require(n >= 1, 'no pthread_create call found in the pthread configuration of c.c')


def check_worker_call(chk, tu):
    """the worker hands the copied task fields to the file writer in the order of its parameters; the sequential build passes
    the same values directly"""
    wb = astdb.fn_body(tu.functions[WORKER])
    calls = [c for c in walk(wb) if c.get('kind') == 'CallExpr' and astdb.callee_name(c) == 'wasmCWriteImplementationFile']
    chk.require(len(calls) == 1, 'worker calls wasmCWriteImplementationFile %d times' % len(calls))
    params = [p.get('name') for p in astdb.fn_params(tu.functions['wasmCWriteImplementationFile'])]
    inits = {}
    for d in walk(wb):
        if d.get('kind') == 'VarDecl' and d.get('init'):
            inits[d['name']] = astdb.expr_text(strip([c for c in kids(d) if c.get('kind')][-1], casts=True))
    args = [astdb.expr_text(strip(a, casts=True)) for a in astdb.call_args(calls[0])]
    def from_task(a, pn):
        if inits.get(a) == 'task->' + pn:
            return True
        m = re.fullmatch(r'(\w+)\.(\w+)', a)      # member of a local struct copy of the whole task record
        return bool(m) and m.group(2) == pn and inits.get(m.group(1)) in ('*task', '*(task)', '*writer->task')
    for pn, a in zip(params, args):
        chk.expect(from_task(a, pn), 'R09.7', 'worker-arg:' + pn,
                   'the worker passes %r (= %r) for parameter %s of wasmCWriteImplementationFile; expected the copy of task->%s'
                   % (a, inits.get(a), pn, pn), WORKER + ':call-args')
    # the producer fills each task field from the value the sequential build passes for the same parameter
    pb = astdb.fn_body(tu.functions[PRODUCER])
    stores = {}
    for n in walk(pb):
        if n.get('kind') == 'BinaryOperator' and n.get('opcode') == '=' and strip(kids(n)[0]).get('kind') == 'MemberExpr' \
                and astdb.expr_text(strip(kids(strip(kids(n)[0]))[0])) == 'task':
            stores.setdefault(strip(kids(n)[0]).get('name'), []).append(astdb.expr_text(strip(kids(n)[1], casts=True)))
    want = {'module': 'module', 'moduleName': 'moduleName', 'headerName': 'headerName', 'filePrefix': 'filePrefix', 'fileIndex': 'fileIndex',
            'functionsPerFile': 'functionsPerFile', 'startFunctionIDIndex': 'startFunctionIDIndex', 'functionIDs': 'functionIDs',
            'pretty': 'options.pretty', 'debug': 'options.debug', 'multipleModules': 'options.multipleModules'}
    for field, src in want.items():
        chk.expect(stores.get(field) == [src], 'R09.7', 'task-field:' + field,
                   'task.%s is assigned %r; the sequential build passes %s' % (field, stores.get(field), src), PRODUCER + ':task-fields')


def run(chk):
    chk.explanation = (
        'Writer pool: structured lock-region must-analysis of the worker and the producer in the HAS_PTHREAD=1 configuration (facts held/free '
        'per mutex, generated by lock/unlock calls), hand-off protocol shape, while-loop predicate around every condition wait. Confinement: '
        'call graph from the worker entry over all translator units, every store classified by the storage of its root object. Partition: '
        'path enumeration of one iteration of the split loops with append/advance events. Formatting neutrality: every dispatch row is '
        'extracted in all four (pretty, prefix) modes and the templates are parsed; pretty/compact must have the same typed AST, prefixing '
        'may only add the module prefix to callee identifiers. Twin emitters are evaluated on a grid of arguments derived from their '
        'parameter types. These are the structural necessary conditions for schedule- and option-independence; equality of whole outputs '
        'under every interleaving is not decided.')
    chk.assumptions = ['POSIX mutex/condition semantics', 'pthread_create/join give happens-before for the writes made before/after them']
    tu = pthread_tu(chk)
    check_locks(chk, tu)
    units = c10.load_units(chk)
    check_confinement(chk, tu, c10.all_functions(units))
    check_partition(chk)
    check_hash_coverage(chk, chk.tier)
    tus = emit.translator_tus(('c.c', 'opcode.c', 'instruction.c'), chk=chk)
    n_t = check_neutrality(chk, tus)
    n_w = check_twins(chk, tus)
    c06.check_data_modes(chk, tus, 'R09.6')
    # R09.14: the compact (default) and the pretty output are the same program: the function prologue declares every local with its own
    # zero initialiser in both modes (a declaration list `T a,b=0;` - shorter, compact-only - leaves `a` indeterminate); rule shared
    # with C03 R03.5 / C11 R11.9
    from . import c01 as _c01, c03 as _c03
    _it = emit.make_interp(tus)
    _tabs = _c01.read_type_tables(chk, tus[0], _it, _c01.value_types(_it), 'R09.14')
    _c03.check_function_body(chk, tus, _tabs, rule='R09.14')
    chk.floor('R09.14', 2)
    check_worker_call(chk, tu)
    check_worker_resources(chk, tu)
    check_bundled_getopt(chk, chk.tier)
    check_option_arms(chk)
    chk.floor('R09.11', 8)
    check_option_string(chk, 'R09.12')
    chk.floor('R09.12', 6)
    chk.floor('R09.9', 1)
    c10.check_name_dedup(chk, chk.tier, rule='R09.8')
    # R09.13: -g gives a function its debug name as a symbol only when it is not exported (an exported function already has the symbol of
    # its export wrapper): whether a function is exported is recorded by the export-section reader - for every defined function,
    # the first one (index = number of function imports) included, and for no import (grammar rule shared with C08 R08.8)
    from . import c08 as _c08
    _rtu = astdb.dump_ast(astdb.src('w2c2/reader.c'))
    chk.unit(_rtu)
    _c08.check_section_grammar(chk, _rtu, rule='R09.13', only=('wasmReadExportSection', 'wasmReadExportSection#2', 'wasmReadExportSection#3'))
    chk.floor('R09.13', 3)
    check_whole_outputs(chk, chk.tier)
    # R09.10: which functions share an output file (-f N, the hash order of the static/dynamic lists) must not change any function's
    # text: each function in a multi-function file equals its text when it is written alone, for several orders - including a void
    # function that returns with operands still on its stack followed by functions with results (rule shared with C03 R03.2)
    from . import c03
    c03.check_function_sequence(chk, rule='R09.10')
    chk.floor('R09.10', 20)
    chk.extra['template_pairs'] = n_t
    chk.extra['twin_evaluations'] = n_w
    chk.floor('R09.1', 30)
    chk.floor('R09.2', 2)
    chk.floor('R09.3', 1 if getattr(chk, 'partition_shape_skipped', False) else 8)
    chk.floor('R09.4', 500)
    chk.floor('R09.5', 60)
    chk.floor('R09.6', 20)
    chk.floor('R09.7', 300)
