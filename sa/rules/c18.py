"""C18  Growing a shared memory from several threads is linearizable and race-free.

Static lock-set consistency (Eraser-style, but over the path summaries of the code instead of a run):

R18.1  on every path of wasmMemoryGrow with memory->shared, all reads and writes of the descriptor fields
       `pages` and `size` happen inside the lock region of memory->mutex; every other access to these fields in
       code that can run concurrently (the memory.size template) must be a locked or atomic access
R18.2  for shared memories the grow path performs no realloc and no store to `data`
R18.3  lock/unlock are balanced on every path; failed grows store nothing (see also C05 R05.3)
R18.4  one descriptor per shared memory: the emitted InitMemories gives a child instance (NewChild, used by thread-spawn) the
       parent's descriptor itself, never a copy - page counter, size and mutex are shared by all threads
R18.6  every runtime function that takes the memory mutex (both atomics configurations) releases it exactly as often as it took it on
       every path and never releases it while not holding it
R18.5  wasmMemoryAllocate records the shared flag exactly as declared and initialises the mutex of every shared memory
"""
from .. import astdb, pe, emit, oracle, templates, runtime, ctyperules as ct, memrules as mr
from ..pe import Ptr, unk, is_sym
from . import c01

PROTECTED = ('pages', 'size')
FAIL = 0xFFFFFFFF


def grow_paths(shared):
    htu = runtime.header('le')
    delta = unk('delta', 'unsigned int')

    def mk(it):
        mem = {'v': runtime.memory_record(it, shared=shared)}
        return [Ptr(mem, 'v'), delta], {'mem': mem['v']}
    return htu, runtime.summarize(htu, 'wasmMemoryGrow', mk)


def check_grow(chk):
    htu, paths = grow_paths(True)
    chk.unit(htu)
    chk.fn('wasmMemoryGrow')
    site = 'wasmMemoryGrow'
    chk.require(len(paths) >= 2, 'wasmMemoryGrow(shared) has %d paths' % len(paths))
    unprotected = {}
    for p in paths:
        if p.aborted:
            continue
        held = 0
        cond = p.cond_text()
        for name, args, loc in p.events:
            if name == 'lock':
                held += 1
            elif name == 'unlock':
                held -= 1
                chk.expect(held >= 0, 'R18.3', 'unlock-without-lock[%s]' % cond[:50], 'unlock without a preceding lock', site, loc)
            elif name in ('read', 'write') and args[1] in PROTECTED and held <= 0:
                unprotected.setdefault((name, args[1]), []).append((loc, cond))
            elif name == 'realloc':
                chk.fail('R18.2', 'no-realloc-when-shared', 'a shared memory is reallocated while other threads may access it (path %s)' % cond,
                         site + ':realloc', loc)
            elif name == 'write' and args[1] == 'data':
                chk.fail('R18.2', 'data-stable-when-shared', 'memory->data of a shared memory is reassigned (path %s)' % cond,
                         site + ':data', loc)
        chk.expect(held == 0, 'R18.3', 'balanced[%s]' % cond[:60],
                   'path returns with the memory mutex %s (path %s)' % ('still held' if held > 0 else 'over-released', cond), site)
        if p.ret == FAIL:
            w = [a for n, a, l in p.events if n == 'write' and a[1] in PROTECTED + ('data',)]
            chk.expect(not w, 'R18.3', 'failed-grow-stores-nothing[%s]' % cond[:50], 'failed grow stores %r' % (w,), site)
    for (kind, field), sites in sorted(unprotected.items()):
        locs = sorted({l for l, _ in sites})
        chk.fail('R18.1', 'grow:%s-%s-under-lock' % (kind, field),
                 'wasmMemoryGrow %ss memory->%s of a shared memory outside the mutex region (at %s) while the same field is written '
                 'under the mutex: two concurrent grows can both observe the same old size (lost update, equal return values)'
                 % (kind, field, ', '.join(locs)), 'wasmMemoryGrow:%s-%s-unlocked' % (kind, field), locs[0])
    for field in PROTECTED:
        for kind in ('read', 'write'):
            if (kind, field) not in unprotected:
                chk.ok('R18.1', 'grow:%s-%s-under-lock' % (kind, field))
    chk.ok('R18.2', 'shared-grow-no-realloc', 'no realloc / data store on the shared paths') if not any(
        o['rule'] == 'R18.2' and not o['ok'] for o in chk.obligations) else None
    chk.sample(dict(rule='R18.1', paths=[dict(cond=p.cond_text(), ret=repr(p.ret),
                                             trace=[e[0] + (':' + e[1][1] if e[0] in ('read', 'write') else '') for e in p.events])
                                        for p in paths]))
    # non-shared paths never take the lock (there is no mutex to take)
    _, np = grow_paths(False)
    for p in np:
        n = [e for e in p.events if e[0] in ('lock', 'unlock')]
        chk.expect(not n, 'R18.3', 'unshared-no-lock[%s]' % p.cond_text()[:50], 'non-shared grow touches the (uninitialised) mutex', site)


def check_all_descriptor_readers(chk):
    """R18.1 over the whole runtime header: every function (other than the allocator and the destructor, which run before publication
    and after the last use) that reads or writes memory->pages / memory->size is partially evaluated with a shared memory; each such
    access must lie inside a lock region of the memory's mutex.  Functions are found by their field accesses, not by name"""
    from .. import astdb
    from ..astdb import walk, kids
    htu = runtime.header('le')
    found = []
    for name, f in sorted(htu.functions.items()):
        body = astdb.fn_body(f)
        if body is None or not (astdb.file_of(f) or '').endswith('w2c2_base.h'):
            continue
        acc = [n for n in walk(body) if n.get('kind') == 'MemberExpr' and n.get('name') in PROTECTED and
               'wasmMemory' in htu.desugar(astdb.qtype(kids(n)[0]))]
        if not acc:
            continue
        calls = {astdb.callee_name(c) for c in walk(body) if c.get('kind') == 'CallExpr'}
        params = astdb.fn_params(f)
        takes_mem = [i for i, p_ in enumerate(params) if 'wasmMemory' in htu.desugar(astdb.qtype(p_))]
        if not takes_mem:
            continue            # creates the descriptor itself (allocator): not yet shared with any thread
        pname = params[takes_mem[0]].get('name')
        frees = [astdb.expr_text(astdb.strip(astdb.call_args(c)[0], casts=True)).replace(' ', '') for c in walk(body)
                 if c.get('kind') == 'CallExpr' and astdb.callee_name(c) == 'free' and astdb.call_args(c)]
        if any(t in (pname, pname + '->data') for t in frees) or calls & {'pthread_mutex_destroy', 'DeleteCriticalSection'}:
            continue            # destroys the descriptor / its storage / its mutex: runs after the last user
        found.append((name, f, params, takes_mem))
    chk.require(len(found) >= 2, 'only %d runtime functions access memory->pages/size (expected grow and size at least)' % len(found))
    for name, f, params, takes_mem in found:
        chk.fn(name)

        def mk(it, params=params, takes_mem=takes_mem):
            args = []
            for i, p_ in enumerate(params):
                if i in takes_mem:
                    args.append(Ptr({'v': runtime.memory_record(it, shared=True)}, 'v'))
                else:
                    args.append(unk(p_.get('name', 'p%d' % i), htu.desugar(astdb.qtype(p_))))
            return args, {}
        try:
            paths = runtime.summarize(htu, name, mk)
        except Exception as e:
            from ..astdb import AnalysisBroken
            raise AnalysisBroken('%s: %s' % (name, e))
        bad = []
        for p in paths:
            held = 0
            for ev, args, loc in p.events:
                if ev == 'lock':
                    held += 1
                elif ev == 'unlock':
                    held -= 1
                elif ev in ('read', 'write') and args[1] in PROTECTED and held <= 0:
                    bad.append((ev, args[1], loc))
        chk.expect(not bad, 'R18.1', '%s:descriptor-access-locked' % name,
                   '%s %ss memory->%s of a shared memory outside a lock region of its mutex (at %s): wasmMemoryGrow writes that field under the '
                   'mutex, so this is a data race on the memory descriptor' % (name, bad[0][0] if bad else '', bad[0][1] if bad else '',
                                                                            bad[0][2] if bad else ''),
                   '%s:unlocked-%s' % (name, bad[0][1] if bad else 'field'), bad[0][2] if bad else None)


def check_mutex_discipline(chk, rule='R18.6'):
    """R18.6: the memory mutex serialises grow/size with every other holder - each function of the runtime header that locks or unlocks
    it (found by its calls, in the lock-free and in the mutex-based atomics configuration) is summarised with a shared memory: on every
    path the mutex is released exactly as often as it was taken and never released while not held (releasing a mutex another thread
    holds lets a second grower into the critical section)"""
    from ..astdb import walk, kids
    n = 0
    for cfg in ('le', 'be'):
        htu = runtime.header(cfg)
        for name, f in sorted(htu.functions.items()):
            body = astdb.fn_body(f)
            if body is None or not (astdb.file_of(f) or '').endswith('w2c2_base.h'):
                continue
            calls = {astdb.callee_name(c) for c in walk(body) if c.get('kind') == 'CallExpr'}
            if not calls & {'pthread_mutex_lock', 'pthread_mutex_unlock', 'EnterCriticalSection', 'LeaveCriticalSection'}:
                continue
            params = astdb.fn_params(f)
            takes_mem = [i for i, p_ in enumerate(params) if 'wasmMemory' in htu.desugar(astdb.qtype(p_))]
            if not takes_mem:
                continue

            def mk(it, params=params, takes_mem=takes_mem):
                args = []
                for i, p_ in enumerate(params):
                    if i in takes_mem:
                        args.append(Ptr({'v': runtime.memory_record(it, shared=True)}, 'v'))
                    else:
                        args.append(unk(p_.get('name', 'p%d' % i), htu.desugar(astdb.qtype(p_))))
                return args, {}
            try:
                paths = runtime.summarize(htu, name, mk)
            except Exception as e:
                from ..astdb import AnalysisBroken
                raise AnalysisBroken('%s@%s: %s' % (name, cfg, e))
            bad = None
            nets = set()
            for p in paths:
                if p.aborted:
                    continue
                held = 0
                seq = []
                for ev, args, loc in p.events:
                    if ev == 'lock':
                        held += 1
                        seq.append(1)
                    elif ev == 'unlock':
                        held -= 1
                        seq.append(-1)
                        if held < 0 and bad is None:
                            bad = 'releases the memory mutex without holding it at %s (path %s)' % (loc, p.cond_text()[:100])
                nets.add(tuple(seq))
                # a function that publishes a new size of the shared memory (stores `pages`): whatever it does to the storage in bulk
                # (clearing the added pages) is done inside the lock region and before the new page count is stored - afterwards other
                # threads see the new size (a locked memory.size) and store into the new pages
                held2, published = 0, False
                for ev, args, loc in p.events:
                    if ev == 'lock':
                        held2 += 1
                    elif ev == 'unlock':
                        held2 -= 1
                    elif ev == 'write' and len(args) > 1 and args[1] == 'pages':
                        published = True
                    elif ev in ('memset', 'memmove', 'memcpy', 'realloc') and any(w[0] == 'write' and len(w[1]) > 1 and w[1][1] == 'pages' for w in p.events):
                        if (held2 <= 0 or published) and bad is None:
                            bad = '%s the storage of the shared memory (%s at %s) %s (path %s) - a store another thread makes into the new pages ' \
                                  'after it saw the new size is overwritten' % (
                                      'clears / moves', ev, loc, 'after the new page count was stored' if published else 'outside the lock region',
                                      p.cond_text()[:100])
                if held != 0 and bad is None:
                    bad = 'returns with the memory mutex %s (path %s)' % ('still held' if held > 0 else 'over-released', p.cond_text()[:100])
            if nets in ({(1,)}, {(-1,)}):
                # a wrapper: on every path exactly one acquire (or exactly one release) and nothing else - its callers are summarised
                # with the wrapper's body inlined, so the balance is decided there
                chk.note('%s@%s is a %s wrapper of the memory mutex' % (name, cfg, 'lock' if nets == {(1,)} else 'unlock'))
                continue
            n += 1
            chk.expect(bad is None, rule, '%s@%s:mutex-balanced' % (name, cfg),
                       '%s (%s configuration) %s: the same mutex protects memory.grow / memory.size of a shared memory, so a concurrent grow '
                       'is no longer exclusive (duplicate old sizes, lost updates)' % (name, 'mutex-based atomics' if cfg == 'be' else 'default', bad),
                       'runtime/%s@%s:mutex' % (name, cfg))
    # the futex operations take the same mutex: wait (finite / infinite timeout) and notify - on a memory that has never been waited
    # on (no futex map yet) and on one with a map
    from . import c17
    from .. import pe as _pe
    ftu = c17.futex_tu(chk)
    cases = [('wasmMemoryAtomicWait[infinite]', lambda: c17.wait_paths(ftu, True)), ('wasmMemoryAtomicWait[timeout]', lambda: c17.wait_paths(ftu, False)),
             ('wasmMemoryAtomicWait[timeout=0]', lambda: c17.wait_paths(ftu, False, 0)), ('wasmMemoryAtomicWait[timeout=1]', lambda: c17.wait_paths(ftu, False, 1))]
    for fut_label, fut in (('no-futex-map', 0), ('futex-map', unk('futex-map'))):
        def notify_paths(fut=fut):
            state = {}
            it = _pe.Interp([ftu], c17.futex_leafs(state), max_paths=2000)
            it.cur_tu = ftu
            it.loop_abort = True        # the walk over an unknown waiter list is cut (C17 decides it on concrete lists)

            def setup():
                state.clear()
                state.update(allocs=0, waits=0)
                mem = {'v': runtime.memory_record(it, shared=True)}
                dict.__setitem__(mem['v'], 'futex', fut)
                return ('wasmMemoryAtomicNotify', [Ptr(mem, 'v'), unk('address', 'unsigned int'), unk('count', 'unsigned int')], {'mem': mem['v'], 'st': state})
            return it.explore(setup)
        cases.append(('wasmMemoryAtomicNotify[%s]' % fut_label, notify_paths))
    for label, get in cases:
        try:
            paths = get()
        except _pe.PEError as e:
            from ..astdb import AnalysisBroken
            raise AnalysisBroken('%s: %s' % (label, e))
        bad = None
        for p in paths:
            if p.aborted:
                continue
            held = 0
            for ev, args, loc in p.events:
                if ev == 'lock':
                    held += 1
                elif ev == 'unlock':
                    held -= 1
                    if held < 0 and bad is None:
                        bad = 'releases the memory mutex without holding it at %s (path %s)' % (loc, p.cond_text()[:100])
            if held != 0 and bad is None:
                bad = 'returns with the memory mutex %s (path %s)' % ('still held' if held > 0 else 'over-released', p.cond_text()[:100])
        n += 1
        chk.expect(bad is None, rule, '%s:mutex-balanced' % label,
                   '%s %s: the same mutex protects memory.grow / memory.size of a shared memory, so a concurrent grow is no longer exclusive '
                   '(duplicate old sizes, lost updates)' % (label, bad), 'futex/%s:mutex' % label.split('[')[0])
    chk.require(n >= 20, 'only %d runtime functions take the memory mutex' % n)


def check_size_template(chk):
    tus = emit.translator_tus(('c.c', 'opcode.c', 'instruction.c'), chk=chk)
    it = emit.make_interp(tus)
    row = oracle.BY_NAME['memory.size']
    tp = [t for t in templates.extract(it, row, ['i64'], 0, 0, imm={'imm0': 0}) if t.ok and t.parts]
    chk.require(len(tp) == 1, 'memory.size has %d templates' % len(tp))
    h = templates.Harness(base_flags=['-DWASM_THREADS_PTHREADS'])
    h.add('S_size', tp[0].text())
    tu = h.parse('c18')
    stmts = [s for s in ct.statements(tu.fn('S_size')) if s.get('kind') != 'NullStmt']
    e = ct.simplify(stmts[0], tu)
    plain = [x for x in ct.walk_e(e) if x.k == 'member' and x.x[0] in PROTECTED]
    calls = [x for x in ct.walk_e(e) if x.k in ('call', 'atomic')]
    site = 'template/memory.size'
    if plain and not calls:
        chk.fail('R18.1', 'memory.size:synchronised-read',
                 'the memory.size template (%s) reads memory.%s with a plain, unsynchronised load; wasmMemoryGrow writes the same field '
                 'under memory->mutex from other threads - a data race on the memory descriptor' % (tp[0].text().strip(), plain[0].x[0]),
                 'template/memory.size:plain-read', e.loc(), template=tp[0].text().strip())
    else:
        # a call: its summary must read the field inside a lock region or through an atomic builtin
        ok = False
        for c in calls:
            if c.k == 'atomic':
                ok = True
            elif c.x and c.x in runtime.header('le').functions:
                htu = runtime.header('le')

                def mk(it2):
                    mem = {'v': runtime.memory_record(it2, shared=True)}
                    return [Ptr(mem, 'v')], {}
                for p in runtime.summarize(htu, c.x, mk):
                    held = 0
                    good = True
                    for name, args, loc in p.events:
                        held += (name == 'lock') - (name == 'unlock')
                        if name == 'read' and args[1] in PROTECTED and held <= 0:
                            good = False
                    ok = good
        chk.expect(ok, 'R18.1', 'memory.size:synchronised-read',
                   'memory.size goes through %r which does not read the size under the mutex or atomically' % ([c.x for c in calls],),
                   'template/memory.size:plain-read', e.loc())


def run(chk):
    chk.explanation = (
        'Lock-set consistency decided on path summaries: wasmMemoryGrow is partially evaluated with memory->shared = true and a '
        'traced descriptor, giving for every path the ordered trace of field reads/writes, lock/unlock, realloc; all accesses to '
        'pages/size must lie inside the lock region, lock/unlock must balance, shared memories are never reallocated. The '
        'memory.size template is extracted and must not be a plain read of the same field. Linearizability over all interleavings '
        'is not decided; these are its structural premises.')
    chk.assumptions = ['pthread mutexes provide mutual exclusion and happens-before', 'only wasmMemoryGrow writes pages/size after publication '
                       '(wasmMemoryAllocate runs before publication, wasmMemoryFree after the last user)']
    check_grow(chk)
    check_size_template(chk)
    check_all_descriptor_readers(chk)
    check_mutex_discipline(chk)
    chk.floor('R18.6', 20)
    # one descriptor per shared memory: thread instances alias the creator's descriptor (rule shared with C06 R06.4)
    from . import c06
    c06.check_shared_descriptor(chk, emit.translator_tus(('c.c', 'opcode.c', 'instruction.c'), chk=chk), 'R18.4')
    chk.floor('R18.4', 3)
    # R18.7: the grow the runtime serialises is the grow the module asked for: the memory.grow / memory.size templates hand the full
    # 32-bit operand to wasmMemoryGrow and take its result (a delta narrowed on the way turns a grow that must fail into one that
    # succeeds with another delta); template rule shared with C05 R05.4
    from . import c01 as _c01, c05 as _c05
    _tus = emit.translator_tus(('c.c', 'opcode.c', 'instruction.c'), chk=chk)
    _it = emit.make_interp(_tus)
    _tabs = _c01.read_type_tables(chk, _tus[0], _it, _c01.value_types(_it), 'R18.7')
    _c05.check_bulk(chk, _it, _tabs, [(0, 0), (1, 0)], rule='R18.7', only=('memory.grow', 'memory.size'))
    chk.floor('R18.7', 4)
    # a memory declared shared is marked shared and gets its mutex, whatever its limits (min == max included): the grow/size
    # paths lock only when the flag says so (allocator rule shared with C06 R06.7)
    c06.check_allocators(chk, rule='R18.5', only_shared_clause=True)
    chk.floor('R18.5', 4)
    chk.floor('R18.1', 5)
    chk.floor('R18.3', 3)
