"""C03  Structured control flow, operand stack and locals behave as specified.

All rules are decided on the text that the emitters produce for small *instruction scripts* under partial
evaluation (the scripts are the finitely many inductive steps of the invariant "the value at stack depth d
lives in slot s<T><d>", instantiated at several stack heights and types; immediates stay symbolic where the
emitters do not branch on them).

R03.1  label placement: block/if define their label after the body, loop before it, each exactly once
R03.2  result-slot invariant: a branch stores the carried value into the slot at the label's entry height (the
       slot the consumer reads) exactly when a result type exists and the slots differ; loop labels carry
       nothing; after the construct the type stack is entry height (+ result); function label = height 0,
       epilogue `L0:; return s<T>0`
R03.3  dead code: br / br_table / return / unreachable switch to ignore mode, the end of the enclosing construct
       switches back; ignore-mode equivalence: every instruction emits nothing, leaves the stack unchanged and
       consumes exactly the same immediates as in live mode
R03.4  select / drop / local.get,set,tee / br_if / br_table stack roles
R03.5  locals: parameters are l0..l(p-1), declared locals follow and are initialised to 0, index -> type
       resolution goes through parameters first
"""
import re

from .. import astdb, pe, emit, oracle, templates, ctyperules as ct
from ..astdb import AnalysisBroken, walk
from ..pe import Ptr, unk, is_sym
from . import c01

V = oracle.VALTYPE_ENC
MARK = 4242


def script(*items):
    """items: (name, imm dict) or name; returns token list ending with the function-level end"""
    toks = []
    for it in items:
        name, imm = (it, None) if isinstance(it, str) else it
        toks += templates.tokens_for(oracle.BY_NAME[name], imm, end=False)
    toks.append(('byte', templates.END))
    return toks


def run_script(it, toks, stack, labels=None, pretty=0, ignore=0, module=None, function=None):
    paths = it.explore(templates.dispatch_setup(it, toks, stack, pretty, 0, ignore, labels, module, function))
    out = []
    for p in paths:
        t = templates.Template(oracle.BY_NAME['nop'], p, pretty, 0, stack)
        t.ls = p.state['ls']
        t.labels_before = labels
        out.append(t)
    return out


LETTERS = {}        # type name -> slot letter, filled by run() from the translator's tables


def undeclared_slots(t):
    """operand-stack variables that the emitted text of script template t mentions although nothing declares them: not recorded in
    stackDeclarations by this script, not a slot of the operand stack the script started with (declared by the producer of that
    operand) and not the result slot of a label that was open before the script (declared when that label was opened)"""
    if not LETTERS:
        return []
    by_letter = {v: k for k, v in LETTERS.items()}
    given = {(i, ty) for i, ty in enumerate(t.stack_before)}
    for lab in (t.labels_before or [(0, 0, None)]):
        if len(lab) > 2 and lab[2] is not None:
            given.add((lab[1] if isinstance(lab[1], int) else 0, lab[2]))
    bad = []
    for m in re.finditer(r'\bs([a-z])(\d+)\b', t.text()):
        ty = by_letter.get(m.group(1))
        if ty is None:
            continue
        idx = int(m.group(2))
        if ty in t.decls.get(idx, set()) or (idx, ty) in given:
            continue
        if m.group(0) not in bad:
            bad.append(m.group(0))
    return bad


def one(chk, tpls, what, reject_rule=None, site=None):
    good = [t for t in tpls if t.ok]
    if reject_rule is not None and tpls and not good:
        # every path ends in a translation error: a valid instruction is rejected
        chk.fail(reject_rule, what + ':translates', 'the translator rejects the valid instruction script "%s" (all %d paths fail): %s'
                 % (what, len(tpls), '; '.join(t.cond for t in tpls)[:200]), site or what)
        return None
    if len(tpls) != 1 or len(good) != 1:
        raise AnalysisBroken('%s: %d paths, %d successful (%s)' % (what, len(tpls), len(good), '; '.join(t.cond for t in tpls)[:200]))
    und = undeclared_slots(good[0]) if hasattr(good[0], 'labels_before') else []
    if und:
        chk.fail(DECL_RULE[0], 'slots-declared[%s]' % what,
                 'script "%s": the emitted code uses the operand-stack variable(s) %s that nothing declares - the emitter did not record them in '
                 'stackDeclarations (recorded: %r), no earlier operand lives there and it is not the result slot of an enclosing label; the generated '
                 'function does not compile (undeclared identifier). Emitted: %r' % (what, ', '.join(und), good[0].decls, good[0].text()[:300]),
                 site or 'stackDeclarations/' + what.split('[')[0])
    else:
        DECL_COUNT[0] += 1
    return good[0]


DECL_RULE = ['R03.5']
DECL_COUNT = [0]


def const(t, v=MARK):
    return ('%s.const' % t, {'imm0': v if t in ('i32', 'i64') else v})


def check_labels(chk, it, tabs):
    L = tabs['letter']
    for h, fill in ((1, ['i64']), (3, ['i64', 'f32', 'i64'])):
        for bt_name, bt in (('void', oracle.BLOCKTYPE_VOID), ('i32', V['i32']), ('i64', V['i64'])):
            body = [] if bt_name == 'void' else [const(bt_name)]
            for cons in ('block', 'loop', 'if'):
                stack = fill + (['i32'] if cons == 'if' else [])
                toks = script((cons, {'imm0': bt}), *(body + ['end']))
                t = one(chk, run_script(it, toks, stack), '%s %s' % (cons, bt_name))
                text = t.text()
                inst = '%s[%s,h=%d]' % (cons, bt_name, h)
                site = 'wasmCWrite%sExpr' % cons.capitalize()
                labs = re.findall(r'\bL(\d+):;', text)
                chk.expect(len(labs) == 1, 'R03.1', inst + ':one-label', '%s emits %d label definitions: %r' % (cons, len(labs), text), site)
                if len(labs) != 1:
                    continue
                lab_pos = text.index('L%s:;' % labs[0])
                if body:
                    m = re.search(r'=\s*(?:W2C2_LL\()?%d' % MARK, text)
                    chk.require(m is not None, 'marker not found in %r' % text)
                    body_pos = m.start()
                    if cons == 'loop':
                        chk.expect(lab_pos < body_pos, 'R03.1', inst + ':label-before-body',
                                   'loop label is defined after the loop body: a branch to it would leave the loop instead of repeating it (%r)' % text, site)
                    else:
                        chk.expect(lab_pos > body_pos, 'R03.1', inst + ':label-after-body',
                                   '%s label is defined before its body: a branch out of the %s would re-enter it (%r)' % (cons, cons, text), site)
                # stack after: entry height (+ result)
                want = fill + ([] if bt_name == 'void' else [bt_name])
                chk.expect(t.stack_after == want, 'R03.2', inst + ':height-restored',
                           'after %s with result %s the type stack is %r, expected %r' % (cons, bt_name, t.stack_after, want), site)
                chk.expect(t.ls['labels']['length'] == 1, 'R03.2', inst + ':label-popped',
                           '%d labels remain after the %s (expected only the function label)' % (t.ls['labels']['length'], cons), site)
                if body:
                    # the value produced by the body lives in the slot at the entry height
                    m = re.search(r'\bs(\w)(\d+)\s*=\s*(?:W2C2_LL\()?%d' % MARK, text)
                    chk.expect(m is not None and int(m.group(2)) == h and m.group(1) == L[bt_name], 'R03.2', inst + ':result-slot',
                               'the result of the %s body is produced in %s, the consumer after the construct reads slot s%s%d'
                               % (cons, m.group(0) if m else '?', L[bt_name], h), site)
                if cons == 'if':
                    m = re.match(r'\s*if\s*\(\s*s%s%d\s*\)' % (L['i32'], h), text)
                    chk.expect(m is not None, 'R03.4', inst + ':condition', 'if tests %r, expected the top slot s%s%d' % (text[:30], L['i32'], h), site)
                chk.sample(dict(rule='R03.1', script='%s %s' % (cons, bt_name), height=h, text=text)) if h == 1 else None
    # if / else: both arms start from the entry height and write the same result slot
    toks = script(('if', {'imm0': V['i32']}), const('i32', 111), 'else', const('i32', 222), 'end')
    t = one(chk, run_script(it, toks, ['i64', 'i32']), 'if/else')
    text = t.text()
    a = re.search(r'\bs\w(\d+)\s*=\s*111', text)
    b = re.search(r'\bs\w(\d+)\s*=\s*222', text)
    ok = a and b and a.group(1) == b.group(1) == '1' and text.index('else') > a.start() and text.index('else') < b.start()
    chk.expect(bool(ok) and t.stack_after == ['i64', 'i32'], 'R03.2', 'if-else:arms',
               'if/else arms write %s / %s and leave %r; both arms must produce the result in slot 1 (%r)'
               % (a.group(0) if a else None, b.group(0) if b else None, t.stack_after, text), 'wasmCWriteIfExpr')


def check_branches(chk, it, tabs):
    L = tabs['letter']
    site = 'wasmCWriteGoto'
    for h, fill in ((1, ['i64']), (4, ['i64', 'f32', 'i64', 'i32'])):
        # br out of a block carrying a value with an extra operand below it
        for rt in ('i32', 'i64'):
            toks = script(('block', {'imm0': V[rt]}), const('i64', 5), const(rt, 7), ('br', {'imm0': 0}), 'end')
            t = one(chk, run_script(it, toks, fill), 'br-with-extra')
            text = t.text()
            src, dst = 's%s%d' % (L[rt], h + 1), 's%s%d' % (L[rt], h)
            m = re.search(r'%s\s*=\s*%s\s*;\s*goto\s+L1\s*;' % (dst, src), text)
            chk.expect(m is not None, 'R03.2', 'br-carries-value[%s,h=%d]' % (rt, h),
                       'br 0 out of a block with result %s and one extra operand must emit "%s=%s;goto L1;" (value moved from the top slot '
                       'to the slot at the block\'s entry height); emitted: %r' % (rt, dst, src, text), site)
            chk.expect(t.stack_after == fill + [rt], 'R03.2', 'br-then-end[%s,h=%d]' % (rt, h), 'stack after block is %r' % (t.stack_after,), site)
            lab = re.search(r'goto\s+L1\s*;.*L1:;', text, re.S)
            chk.expect(lab is not None, 'R03.1', 'br-target-defined[%s,h=%d]' % (rt, h), 'goto L1 precedes no definition of L1: %r' % text, site)
        # no extra operand: no move needed (same slot)
        toks = script(('block', {'imm0': V['i32']}), const('i32', 7), ('br', {'imm0': 0}), 'end')
        t = one(chk, run_script(it, toks, fill), 'br-same-slot')
        chk.expect(re.search(r'=\s*s\w\d+\s*;\s*goto', t.text()) is None and 'goto L1;' in t.text(), 'R03.2', 'br-same-slot[h=%d]' % h,
                   'value already in the result slot must not be moved: %r' % t.text(), site)
        # loop label carries nothing
        toks = script(('loop', {'imm0': V['i32']}), const('i32', 7), ('br', {'imm0': 0}), 'end')
        t = one(chk, run_script(it, toks, fill), 'br-loop')
        chk.expect(re.search(r'=\s*s\w\d+\s*;\s*goto', t.text()) is None, 'R03.2', 'loop-label-carries-nothing[h=%d]' % h,
                   'a branch to a loop label must not move an operand (loops take no parameters here): %r' % t.text(), 'wasmCWriteLoopExpr')
        # nested depth: br 1 from inner block targets the outer label and outer height
        toks = script(('block', {'imm0': V['i32']}), ('block', {'imm0': oracle.BLOCKTYPE_VOID}), const('i64', 1), const('i32', 9),
                      ('br', {'imm0': 1}), 'end', const('i32', 3), 'end')
        t = one(chk, run_script(it, toks, fill), 'br-depth-1')
        text = t.text()
        m = re.search(r's%s%d\s*=\s*s%s%d\s*;\s*goto\s+L1\s*;' % (L['i32'], h, L['i32'], h + 1), text)
        chk.expect(m is not None, 'R03.2', 'br-depth-1[h=%d]' % h,
                   'br 1 must target the outer block (label L1, result slot s%s%d): %r' % (L['i32'], h, text), site)
        # dead code after br is not emitted and the end of the block revives emission
        toks = script(('block', {'imm0': oracle.BLOCKTYPE_VOID}), ('br', {'imm0': 0}), const('i32', 999), 'drop', 'end', const('i32', MARK), 'drop')
        t = one(chk, run_script(it, toks, fill), 'dead-after-br')
        text = t.text()
        chk.expect('999' not in text, 'R03.3', 'dead-code-not-emitted[h=%d]' % h, 'code after an unconditional branch is emitted: %r' % text, 'wasmCWriteFunctionCode:br')
        chk.expect(str(MARK) in text and t.ignore_after == 0, 'R03.3', 'end-revives[h=%d]' % h,
                   'code after the end of the block is missing (ignore mode not left): %r' % text, 'wasmCWriteBlockExpr:ignore-reset')
        chk.expect(t.stack_after == fill, 'R03.3', 'dead-stack-untouched[h=%d]' % h, 'stack after is %r' % (t.stack_after,), 'wasmCWriteFunctionCode:br')
    # an else arm is live even when the then arm ended in an unconditional transfer (and vice versa)
    for name, tail in (('br', ('br', {'imm0': 1})), ('return', 'return'), ('unreachable', 'unreachable')):
        toks = script(('block', {'imm0': oracle.BLOCKTYPE_VOID}), const('i32', 1), ('if', {'imm0': V['i32']}), const('i32', 111), tail, 'else',
                      const('i32', MARK), 'end', 'drop', 'end')
        t = one(chk, run_script(it, toks, ['i64'], labels=[(0, 0, None)]), 'if-dead-then-' + name)
        text = t.text()
        m = re.search(r'else\s*\{[^}]*%d' % MARK, text)
        chk.expect(m is not None, 'R03.3', 'else-live-after-dead-then:' + name,
                   'the then-arm ends in %s; the else-arm (reachable when the condition is 0) must still be emitted, got %r' % (name, text),
                   'wasmCWriteIfExpr:ignore-reset')
        chk.expect(t.stack_after == ['i64'] and t.ignore_after == 0, 'R03.3', 'if-dead-then-stack:' + name,
                   'after the if/else the stack is %r, ignore=%r' % (t.stack_after, t.ignore_after), 'wasmCWriteIfExpr:ignore-reset')
        toks = script(('block', {'imm0': oracle.BLOCKTYPE_VOID}), const('i32', 1), ('if', {'imm0': V['i32']}), const('i32', MARK), 'else', const('i32', 222),
                      tail, 'end', 'drop', const('i32', 333), 'drop', 'end')
        t = one(chk, run_script(it, toks, ['i64'], labels=[(0, 0, None)]), 'if-dead-else-' + name)
        chk.expect('333' in t.text() and t.ignore_after == 0, 'R03.3', 'code-after-if-live:' + name,
                   'the else-arm ends in %s but the then-arm falls through: code after the if must be emitted, got %r' % (name, t.text()),
                   'wasmCWriteIfExpr:ignore-reset')
    # each unconditional transfer enters ignore mode
    for name, toks, stack in (('br', script(('br', {'imm0': 0})), ['i64']),
                              ('return', script('return'), ['i64']),
                              ('unreachable', script('unreachable'), ['i64']),
                              ('br_table', script(('br_table', {'labels': [0], 'default': 0})), ['i64', 'i32'])):
        tp = run_script(it, toks, stack)
        good = [t for t in tp if t.ok]
        chk.require(good, '%s has no successful path' % name)
        chk.expect(all(t.ignore_after == 1 for t in good), 'R03.3', 'enters-ignore:' + name,
                   '%s does not switch the writer to ignore mode: following dead code would be emitted with a wrong type stack' % name,
                   'wasmCWriteFunctionCode:' + name)
    # return = goto function label with the result in slot 0
    t = one(chk, run_script(it, script(const('i64', 1), const('i32', 2), 'return'), [], labels=[(0, 0, 'i32')]), 'return')
    m = re.search(r's%s0\s*=\s*s%s1\s*;\s*goto\s+L0\s*;' % (L['i32'], L['i32']), t.text())
    chk.expect(m is not None, 'R03.2', 'return-carries-result', 'return with the result on top of another operand must emit "s%s0=s%s1;goto L0;": %r'
               % (L['i32'], L['i32'], t.text()), 'wasmCWriteFunctionCode:return')
    # br_if pops the condition before the carried value is located
    toks = script(('block', {'imm0': V['i32']}), const('i64', 1), const('i32', 7), const('i32', 0), ('br_if', {'imm0': 0}), 'drop', 'drop', const('i32', 1), 'end')
    t = one(chk, run_script(it, toks, ['i64']), 'br_if')
    text = t.text()
    m = re.search(r'if\s*\(\s*s%s3\s*\)\s*\{\s*s%s1\s*=\s*s%s2\s*;\s*goto\s+L1\s*;\s*\}' % (L['i32'], L['i32'], L['i32']), text)
    chk.expect(m is not None, 'R03.4', 'br_if-roles',
               'br_if must test the top slot (s%s3) and carry the slot below it (s%s2) to the block result slot (s%s1): %r'
               % (L['i32'], L['i32'], L['i32'], text), 'wasmCWriteBranchIfExpr')
    # br_table: one case per entry, in order, then default
    toks = script(('block', {'imm0': oracle.BLOCKTYPE_VOID}), ('block', {'imm0': oracle.BLOCKTYPE_VOID}), ('block', {'imm0': oracle.BLOCKTYPE_VOID}),
                  const('i32', 0), ('br_table', {'labels': [2, 0, 1], 'default': 1}), 'end', 'end', 'end')
    t = one(chk, run_script(it, toks, ['i64']), 'br_table')
    text = t.text()
    cases = re.findall(r'case\s+(\d+)\s*:\s*goto\s+L(\d+)\s*;', text)
    dflt = re.findall(r'default\s*:\s*goto\s+L(\d+)\s*;', text)
    sw = re.search(r'switch\s*\(\s*s%s1\s*\)' % L['i32'], text)
    # labels: outer block L1, middle L2, inner L3; depth 0 = inner
    want = [('0', '1'), ('1', '3'), ('2', '2')]
    chk.expect(sw is not None and cases == want and dflt == ['2'], 'R03.4', 'br_table-cases',
               'br_table [2,0,1] default 1 inside three nested blocks must dispatch case 0->L1, 1->L3, 2->L2, default->L2 on the top slot; '
               'emitted %r / default %r (%r)' % (cases, dflt, text), 'wasmCWriteBranchTableExpr')

    # br_table carrying a value: the selector is popped before the carried value is located, for every table size including
    # the empty table (default only)
    for labels in ([], [0], [0, 0], [0, 0, 0]):
        toks = script(('block', {'imm0': V['i32']}), const('i64', 1), const('i32', 7), const('i32', 0), ('br_table', {'labels': labels, 'default': 0}), 'end')
        t = one(chk, run_script(it, toks, ['i64']), 'br_table-value[%d]' % len(labels))
        text = t.text()
        flat = re.sub(r'\s+', '', text)
        carries = re.findall(r's%s1=s%s(\d)' % (L['i32'], L['i32']), flat)
        gotos = len(re.findall(r'gotoL1;', flat))
        chk.expect(carries and set(carries) == {'2'} and gotos == len(carries) and gotos >= 1, 'R03.4', 'br_table-carries-value[%d labels]' % len(labels),
                   'br_table with %d table entries to a block with an i32 result, with the selector in s%s3, the value in s%s2 and another operand below: every '
                   'branch must copy s%s2 (not the selector) into the result slot s%s1; emitted %r' % (len(labels), L['i32'], L['i32'], L['i32'], L['i32'], text),
                   'wasmCWriteBranchTableExpr:value')


CARRY_RULE = ['R03.2']


def check_branch_family(chk, it, tabs, tier='quick'):
    """R03.2/R03.4 over a family: branch instruction x nesting depth x number of extra operands below the value x result type"""
    L = tabs['letter']
    n = 0
    for t_ in ('i32', 'i64', 'f32', 'f64'):
        for depth in ((0, 1, 2) if tier == 'quick' else (0, 1, 2, 3, 5)):
            for extras in ((0, 1, 2) if tier == 'quick' else (0, 1, 2, 3, 6)):
                for kind, target in [(k_, 'block') for k_ in ('br', 'br_if', 'br_table', 'return')] + \
                        [(k_, tg_) for tg_ in ('if-then', 'if-else') for k_ in ('br', 'br_if', 'br_table')]:
                    # the target label belongs to a block, or to an if (branch from its then arm / its else arm): an if label is entered
                    # after the condition has been popped, its result slot is the slot the condition was in
                    if target == 'block':
                        items = [('block', {'imm0': V[t_]})]
                    elif target == 'if-then':
                        items = [const('i32', 1), ('if', {'imm0': V[t_]})]
                    else:
                        items = [const('i32', 1), ('if', {'imm0': V[t_]}), const(t_, 8), 'else']
                    items += [('block', {'imm0': oracle.BLOCKTYPE_VOID})] * depth
                    items += [const('i64', 5)] * extras + [const(t_, 3)]
                    if kind == 'br':
                        items.append(('br', {'imm0': depth}))
                    elif kind == 'br_if':
                        items += [const('i32', 1), ('br_if', {'imm0': depth})]
                    elif kind == 'br_table':
                        items += [const('i32', 1), ('br_table', {'labels': [depth, depth], 'default': depth})]
                    else:
                        items.append('return')
                    # close the constructs again (dead code after br / br_table / return; live after br_if: drop the operands)
                    if kind == 'br_if':
                        items += ['drop'] * (extras + 1)
                    items += ['end'] * depth
                    if kind == 'br_if' or depth > 0:
                        items.append(const(t_, 9))
                    if target == 'if-then':
                        items += ['else', const(t_, 7)]
                    items.append('end')
                    labels = [(0, 0, t_)] if kind == 'return' else None
                    stack = [] if kind == 'return' else ['i64']
                    try:
                        tpl = one(chk, run_script(it, script(*items), stack, labels=labels), '%s-family' % kind)
                    except emit.ScriptMismatch as e:
                        emit.decide_mismatch(chk, 'R03.4', '%s-family:decoders' % kind, e, 'branch-carry/' + kind, 'branch family: ')
                        continue
                    if tpl is None:
                        continue
                    n += 1
                    flat = re.sub(r'\s+', '', tpl.text())
                    base = 0 if kind == 'return' else 1           # entry height of the target label = its result slot
                    if kind == 'return':
                        # the outer block of the script sits on top of the function label: its result slot is 0 as well
                        pass
                    src = base + extras
                    tgt_label = 'L0' if kind == 'return' else 'L1'
                    lt = L[t_]
                    copies = re.findall(r's%s(\d+)=s%s(\d+);goto%s;' % (lt, lt, tgt_label), flat)
                    plain = len(re.findall(r'goto%s;' % tgt_label, flat))
                    label = '%s[%s,depth=%d,extras=%d%s]' % (kind, t_, depth, extras, '' if target == 'block' else ',' + target)
                    if extras == 0:
                        ok = plain >= 1 and all(a == b for a, b in copies)
                    else:
                        ok = plain >= 1 and len(copies) == plain and all(int(a) == base and int(b) == src for a, b in copies)
                    chk.expect(ok, CARRY_RULE[0], 'carry:' + label,
                               ('%s%s out of %d nested block(s) with %d extra operand(s) below a %s value: every jump to %s must be preceded by '
                                's%s%d=s%s%d (value slot -> result slot of the target)%s; emitted %r')
                               % (kind, (' to the label of an if (from its %s arm)' % target[3:]) if target != 'block' else '', depth, extras, t_,
                                  tgt_label, lt, base, lt, src, ' or nothing when they coincide' if not extras else '', tpl.text()),
                               'branch-carry/' + kind)
    return n


def check_ignore_equivalence(chk, it, rule_dead='R03.3'):
    """every instruction: ignore mode emits nothing, keeps the stack, consumes the same immediates"""
    n = 0

    def label_count(p):
        ls = p.state.get('ls')
        ln = ls['labels'].get('length') if isinstance(ls, dict) and isinstance(ls.get('labels'), dict) else None
        return ln
    # reference: the label stack after a dead `nop; end` - a dead instruction, structured or not, followed by the same `end` must leave
    # the same labels (a dead block that pushes a label which its dead `end` does not pop shifts every later branch by one level)
    nop_dead = [p for p in it.explore(templates.dispatch_setup(it, templates.tokens_for(oracle.BY_NAME['nop']), ['i64'], 0, 0, 1)) if p.ret == 1]
    want_labels = label_count(nop_dead[0]) if len(nop_dead) == 1 else None
    for row in oracle.ROWS:
        cls = row['sem'].get('cls')
        if cls in ('else', 'end'):
            continue
        params = [p if p != 'any' else 'i32' for p in row['params']]
        stack = ['i64'] + params
        imm = {}
        if cls in ('block', 'loop', 'if'):
            toks = templates.tokens_for(row, {'imm0': V['i32']}, end=False) + [('byte', 0x01), ('byte', templates.END), ('byte', templates.END)]
        elif cls == 'br_table':
            toks = templates.tokens_for(row, {'labels': [0, 0], 'default': 0})
        elif cls in ('memory.size', 'memory.grow', 'memory.fill'):
            toks = templates.tokens_for(row, {'imm0': 0})
        elif cls == 'memory.copy':
            toks = templates.tokens_for(row, {'memidx1': 0, 'memidx2': 0})
        elif cls == 'memory.init':
            toks = templates.tokens_for(row, {'dataidx': 0, 'memidx': 0})
        elif cls == 'atomic.fence':
            toks = templates.tokens_for(row, {'imm0': 0})
        elif cls in ('br', 'br_if'):
            toks = templates.tokens_for(row, {'imm0': 0})
        elif cls in ('local.get', 'local.set', 'local.tee', 'global.get', 'global.set', 'call', 'call_indirect', 'data.drop'):
            toks = None     # need a module context in live mode; the ignore run alone is compared with the oracle's immediates
        else:
            toks = templates.tokens_for(row)
        site = 'dispatch/' + row['name']
        if toks is None:
            toks = templates.tokens_for(row)
            ig = it.explore(templates.dispatch_setup(it, toks, stack, 0, 0, 1))
            want = [('byte', row['enc'][0])] + ([('u32', row['enc'][1])] if len(row['enc']) > 1 else []) + \
                [('u32', None) for _ in row['imm']] + [('byte', templates.END)]
            for p in ig:
                log = [(t, None if t != 'byte' or k not in (0, len(p.state['stream'].log) - 1) else v) for k, (t, v) in enumerate(p.state['stream'].log)]
                shape = [t for t, v in p.state['stream'].log]
                chk.expect(shape == [t for t, v in want] and p.ret == 1, 'R03.3', 'ignore-consumes:' + row['name'],
                           '%s in dead code consumes %r, its encoding has immediates %r: the decoder would lose synchronisation'
                           % (row['name'], shape, [t for t, v in want]), site)
                n += 1
            continue
        live = [p for p in it.explore(templates.dispatch_setup(it, toks, stack, 0, 0, 0)) if p.ret == 1 and not p.aborted]
        dead = it.explore(templates.dispatch_setup(it, toks, stack, 0, 0, 1))
        if not live:
            chk.note('%s: no live-mode success path with this generic script (not compared)' % row['name'])
            continue
        live_logs = {tuple(t for t, v in p.state['stream'].log) for p in live}
        for p in dead:
            if p.ret != 1:
                # an encoding error is reported identically in both modes (before the ignore test)
                continue
            n += 1
            text = p.state['sb']['_text'].render()
            shape = tuple(t for t, v in p.state['stream'].log)
            chk.expect(text == '', 'R03.3', 'ignore-emits-nothing:' + row['name'], '%s emits %r in dead code' % (row['name'], text), site)
            n_after = p.state['ts']['length']
            chk.expect(n_after == len(stack), 'R03.3', 'ignore-keeps-stack:' + row['name'],
                       '%s changes the type stack height in dead code (%d -> %r)' % (row['name'], len(stack), n_after), site)
            chk.expect(shape in live_logs, 'R03.3', 'ignore-consumes:' + row['name'],
                       '%s consumes immediates %r in dead code but %r in live code: the decoder loses synchronisation after dead code'
                       % (row['name'], shape, sorted(live_logs)), site)
            chk.expect(p.state['w']['ignore'] == 1, 'R03.3', 'ignore-stays:' + row['name'], '%s leaves ignore mode' % row['name'], site)
            if want_labels is not None:
                chk.expect(label_count(p) == want_labels, 'R03.3', 'ignore-keeps-labels:' + row['name'],
                           '%s (with its `end`) in dead code leaves %r labels on the label stack, a dead nop leaves %r: the labels of the '
                           'enclosing live blocks are shifted, so later branches reach another block\'s end'
                           % (row['name'], label_count(p), want_labels), site)
    # branches in dead code may name labels of dead blocks, which the writer does not track: their depth can reach or exceed the number of
    # live labels (`return; block; ...; br_table 0 1; end` is valid).  Dead branches with such depths must be skipped like any other dead
    # instruction - no label lookup, no failure, no abort
    for name, imm in (('br', {'imm0': 3}), ('br_if', {'imm0': 7}), ('br_table', {'labels': [0, 5], 'default': 2}), ('br_table', {'labels': [], 'default': 1})):
        row = oracle.BY_NAME[name]
        stack = ['i64'] + [p if p != 'any' else 'i32' for p in row['params']]
        toks = templates.tokens_for(row, imm)
        for p in it.explore(templates.dispatch_setup(it, toks, stack, 0, 0, 1)):
            n += 1
            chk.expect(p.ret == 1 and not p.aborted and p.state['sb']['_text'].render() == '' and p.state['ts']['length'] == len(stack), rule_dead,
                       'dead-branch-beyond-live-labels:%s%r' % (name, sorted(imm.items())),
                       '%s %r in dead code with one live label: the translator %s; a dead branch may refer to labels of dead blocks, which are '
                       'not on the label stack - it must be skipped without looking its labels up'
                       % (name, imm, 'stops (%s)' % p.aborted if p.aborted else 'fails / emits %r' % p.state['sb']['_text'].render()[:60]),
                       'dispatch/' + name + ':dead-labels')
    chk.require(n >= 150, 'ignore-mode equivalence covered only %d instruction paths' % n)


def check_parametric(chk, it, tabs):
    L = tabs['letter']
    h = templates.Harness()
    for t_ in ('i32', 'f64'):
        tp = one(chk, run_script(it, script('select'), ['i64', t_, t_, 'i32']), 'select')
        h.add('SEL_' + t_, tp.text())
        chk.expect(tp.stack_after == ['i64', t_], 'R03.4', 'select-stack[%s]' % t_, 'stack after select: %r' % (tp.stack_after,), 'wasmCWriteSelectExpr')
    tu = h.parse('c03')
    for t_ in ('i32', 'f64'):
        e = ct.simplify(ct.statements(tu.fn('SEL_' + t_))[0], tu)
        ok = e.k == 'assign' and e.a[0].k == 'var' and e.a[0].x == 's%s1' % L[t_]
        r = e.a[1]
        while r.k == 'cast':
            r = r.a[0]
        ok = ok and r.k == 'cond'
        if ok:
            c, a, b = r.a
            while c.k == 'cast':
                c = c.a[0]
            ok = c.k == 'var' and c.x == 's%s3' % L['i32'] and a.k == 'var' and a.x == 's%s1' % L[t_] and b.k == 'var' and b.x == 's%s2' % L[t_]
        chk.expect(ok, 'R03.4', 'select-roles[%s]' % t_,
                   'select must yield <third from top> when the top (condition) is non-zero, else <second from top>, into the third-from-top slot; '
                   'emitted %r' % (e,), 'wasmCWriteSelectExpr')
    tp = one(chk, run_script(it, script('drop'), ['i64', 'i32']), 'drop')
    chk.expect(tp.stack_after == ['i64'] and tp.text() == '', 'R03.4', 'drop', 'drop leaves %r / emits %r' % (tp.stack_after, tp.text()), 'wasmCWriteFunctionCode:drop')
    tp = one(chk, run_script(it, script('nop'), ['i64', 'i32']), 'nop')
    chk.expect(tp.stack_after == ['i64', 'i32'] and tp.text() == '', 'R03.4', 'nop', 'nop leaves %r / emits %r' % (tp.stack_after, tp.text()), 'wasmCWriteFunctionCode:nop')


def local_context(it):
    """module + function with parameters (i32, f64) and locals 2 x i64, 1 x f32"""
    def module(interp):
        m = interp.zero_init('struct WasmModule')
        m['functionTypes'] = {'functionTypes': Ptr([emit.func_type(['i32', 'f64'], ['i32'])], 0), 'count': 1}
        return m

    def function(interp):
        f = interp.zero_init('struct WasmFunction')
        f['functionTypeIndex'] = 0
        f['localsDeclarations'] = {'declarations': Ptr([{'type': emit.VT['i64'], 'count': 2}, {'type': emit.VT['f32'], 'count': 1}], 0),
                                   'declarationCount': 2}
        return f
    return module, function


def local_context_with(it, params, groups):
    def module(interp):
        m = interp.zero_init('struct WasmModule')
        m['functionTypes'] = {'functionTypes': Ptr([emit.func_type(params, ['i32'])], 0), 'count': 1}
        return m

    def function(interp):
        f = interp.zero_init('struct WasmFunction')
        f['functionTypeIndex'] = 0
        f['localsDeclarations'] = {'declarations': Ptr([{'type': emit.VT[t], 'count': n} for t, n in groups], 0) if groups else 0,
                                   'declarationCount': len(groups)}
        return f
    return module, function


def check_local_groups(chk, it, tabs, rule='R03.5'):
    """R03.5 over locals vectors with empty groups (valid, e.g. `0 x i32, 1 x i64`), many groups and no parameters"""
    L = tabs['letter']
    shapes = [([], [('i32', 0), ('i64', 1)]), (['i64'], [('i32', 0), ('i64', 1)]), (['i32'], [('i64', 2), ('f32', 0), ('f64', 1)]),
              ([], [('f32', 1), ('i32', 0)]), (['f64', 'i32'], [('i32', 0), ('i32', 0), ('i64', 1), ('f32', 0)]), (['i32'], [])]
    for params, groups in shapes:
        module, function = local_context_with(it, params, groups)
        types = list(params) + [t for t, n in groups for _ in range(n)]
        label = 'params=%r,locals=%r' % (params, groups)
        for k, t_ in enumerate(types):
            tp = one(chk, run_script(it, script(('local.get', {'imm0': k})), ['i64'], module=module, function=function), 'local.get', rule, 'wasmLocalsDeclarationsGetType')
            if tp is None:
                continue
            m = re.fullmatch(r's(\w)1\s*=\s*l%d;\s*' % k, tp.text())
            chk.expect(m is not None and m.group(1) == L[t_] and tp.stack_after == ['i64', t_], rule, 'local-type[%s,#%d]' % (label, k),
                       'local %d of a function with %s has type %s: local.get must read l%d into a %s slot; emitted %r, stack %r'
                       % (k, label, t_, k, t_, tp.text(), tp.stack_after), 'wasmLocalsDeclarationsGetType')
        tp = run_script(it, script(('local.get', {'imm0': len(types)})), ['i64'], module=module, function=function)
        chk.expect(all(not t.ok for t in tp), rule, 'local-index-checked[%s]' % label,
                   'local.get %d of a function with only %d locals (%s) is translated' % (len(types), len(types), label), 'wasmLocalsDeclarationsGetType')


def check_locals(chk, it, tabs):
    L = tabs['letter']
    check_local_groups(chk, it, tabs)
    module, function = local_context(it)
    want_t = ['i32', 'f64', 'i64', 'i64', 'f32']
    for k, t_ in enumerate(want_t):
        tp = one(chk, run_script(it, script(('local.get', {'imm0': k})), ['i64'], module=module, function=function), 'local.get')
        m = re.fullmatch(r's(\w)1\s*=\s*l%d;\s*' % k, tp.text())
        chk.expect(m is not None and m.group(1) == L[t_] and tp.stack_after == ['i64', t_], 'R03.5', 'local.get[%d]' % k,
                   'local.get %d of a function (i32, f64) with locals i64 i64 f32 must read l%d into a %s slot; emitted %r, stack %r'
                   % (k, k, t_, tp.text(), tp.stack_after), 'wasmModuleFunctionGetLocalType')
        tp = one(chk, run_script(it, script(('local.set', {'imm0': k})), ['i64', t_], module=module, function=function), 'local.set')
        m = re.fullmatch(r'l%d\s*=\s*s%s1;\s*' % (k, L[t_]), tp.text())
        chk.expect(m is not None and tp.stack_after == ['i64'], 'R03.4', 'local.set[%d]' % k, 'local.set %d emitted %r, stack %r' % (k, tp.text(), tp.stack_after),
                   'wasmCWriteLocalAssignmentExpr')
        tp = one(chk, run_script(it, script(('local.tee', {'imm0': k})), ['i64', t_], module=module, function=function), 'local.tee')
        chk.expect(m is not None and re.fullmatch(r'l%d\s*=\s*s%s1;\s*' % (k, L[t_]), tp.text()) is not None and tp.stack_after == ['i64', t_],
                   'R03.4', 'local.tee[%d]' % k, 'local.tee %d emitted %r and leaves %r (tee must not pop)' % (k, tp.text(), tp.stack_after),
                   'wasmCWriteLocalAssignmentExpr')
    # out-of-range local index is a translation error, not garbage
    tp = run_script(it, script(('local.get', {'imm0': 5})), ['i64'], module=module, function=function)
    chk.expect(all(not t.ok for t in tp), 'R03.5', 'local-index-checked', 'local.get 5 of a function with 5 locals is translated', 'wasmModuleFunctionGetLocalType')


def parse_local_decls(text):
    """[(C type, local number, initialiser text or None)] of the declarations of l<N> variables in an emitted function body - one
    entry per declarator, whether the locals are declared one per statement or grouped (`T l1=0,l2=0;`)"""
    out = []
    for m in re.finditer(r'(?:^|[;{}\n])\s*((?:const\s+)?\w+)\s+((?:l\d+\s*(?:=\s*[^,;]+)?\s*,\s*)*l\d+\s*(?:=\s*[^,;]+)?)\s*;', text):
        ty = m.group(1)
        if ty in ('return', 'goto', 'else'):
            continue
        for d in m.group(2).split(','):
            dm = re.fullmatch(r'\s*l(\d+)\s*(?:=\s*(.+?))?\s*', d)
            if dm:
                out.append((ty, dm.group(1), dm.group(2)))
    return out


def _is_zero_init(init):
    return init is not None and re.fullmatch(r'\(?\s*(0[uUlL]*|0\.0*[fF]?|0x0+[uUlL]*|W2C2_LL\(0[uU]?\))\s*\)?', init.strip()) is not None


def check_function_body(chk, tus, tabs, rule='R03.5'):
    """wasmCWriteFunctionBody: declarations first, zero-initialised locals, L0 and return"""
    it = emit.make_interp(tus)
    module, function = local_context(it)
    C = tabs['ctype']
    L = tabs['letter']
    toks = script(const('i32', MARK))

    def setup():
        out = pe.Text('file')
        ts, sd, ls = {'v': emit.type_stack([])}, {'v': emit.empty_decls()}, {'v': emit.label_stack([])}
        mod = {'v': module(it)}
        fn = function(it)
        fn['code'] = {'data': unk('code'), 'length': unk('len')}
        st = {'stream': emit.Stream(toks), 'out': out}
        return ('wasmCWriteFunctionBody', [out, Ptr(ts, 'v'), Ptr(sd, 'v'), Ptr(ls, 'v'), Ptr(mod, 'v'), 'mod', fn, 0, 0, 0, 0], st)
    paths = [p for p in it.explore(setup) if p.ret == 1]
    chk.require(len(paths) == 1, 'wasmCWriteFunctionBody: %d successful paths' % len(paths))
    text = paths[0].state['out'].render()
    site = 'wasmCWriteFunctionBody'
    parsed = parse_local_decls(text)
    decl = [(t_, n_) for t_, n_, i_ in parsed]
    want = [(C['i64'], '2'), (C['i64'], '3'), (C['f32'], '4')]
    uninit = [(t_, 'l' + n_, i_) for t_, n_, i_ in parsed if not _is_zero_init(i_)]
    chk.expect(decl == want and not uninit, rule, 'locals-declared-zero',
               'declared locals are emitted as %r; expected %r (numbered after the 2 parameters), each declarator with its own initialiser 0 - '
               'in C an initialiser binds to one declarator only, so `T a,b=0;` leaves `a` indeterminate (not zero-initialised: %r)'
               % (parsed, want, uninit), site + ':locals')
    if rule != 'R03.5':
        return
    slotdecl = re.search(r'%s\s+s%s0\s*;' % (C['i32'], L['i32']), text)
    body = text.find('%dU' % MARK)
    chk.expect(slotdecl is not None and slotdecl.start() < body and all(text.index('l%s' % n) < body for _, n in decl), 'R03.5', 'declarations-first',
               'slot/local declarations do not precede the statements (C89): %r' % text, site + ':order')
    m = re.search(r'L0:;\s*return\s+s%s0\s*;\s*\}' % L['i32'], text)
    chk.expect(m is not None and m.start() > body, 'R03.2', 'function-epilogue',
               'function epilogue must be "L0:; return s%s0;" after the body: %r' % (L['i32'], text), site + ':epilogue')
    chk.sample(dict(rule='R03.5', function_body=text))


def check_unreachable_traps(chk, it):
    """R03.6: `unreachable` is an instruction with an effect - it traps.  Its template, parsed against the runtime header in the build
    configurations of generated code (default, -DNDEBUG, -O2-style __OPTIMIZE__ defined, both), must expand to a call of the embedder's
    trap handler with the unreachable enumerator; a compiler hint (`__builtin_unreachable()`) is not a trap: the C compiler may delete
    the guarding branch and execution continues"""
    row = oracle.BY_NAME['unreachable']
    n = 0
    for pretty in (0, 1):
        tp = [t for t in templates.extract(it, row, ['i64'], pretty, 0) if t.ok and t.parts]
        chk.require(len(tp) == 1, 'unreachable has %d templates' % len(tp))
        text = tp[0].text()
        for cfg, flags in (('default', []), ('ndebug', ['-DNDEBUG']), ('optimize', ['-D__OPTIMIZE__=1']), ('ndebug+optimize', ['-DNDEBUG', '-D__OPTIMIZE__=1'])):
            h = templates.Harness(base_flags=['-DWASM_THREADS_PTHREADS'] + flags)
            h.add('T_unreachable', text)
            tu = h.parse('c03-unreachable-' + cfg)
            body = astdb.fn_body(tu.fn('T_unreachable'))
            calls = [c for c in walk(body) if c.get('kind') == 'CallExpr']
            names = [astdb.callee_name(c) for c in calls]
            ok = False
            for c in calls:
                if astdb.callee_name(c) == 'trap':
                    a = astdb.call_args(c)
                    refs = [x.get('referencedDecl', {}).get('name') for x in walk(a[0]) if x.get('kind') == 'DeclRefExpr'] if a else []
                    ok = ok or any(r and 'nreachable' in r for r in refs)
            n += 1
            chk.expect(ok, 'R03.6', 'unreachable-traps[p%d,%s]' % (pretty, cfg),
                       'in the %s configuration of the generated code the `unreachable` template %r expands to calls of %r: it must call the trap '
                       'handler with the unreachable trap - a compiler hint is not a trap, the C compiler may then delete the branch that guards '
                       'it and execution continues past it' % (cfg, text.strip(), names), 'template/unreachable:' + cfg)
    return n


def check_function_sequence(chk, rule='R03.2'):
    """R03.2: every function starts with an empty operand stack, whatever the previous function in the same file left behind:
    the text of each function in a multi-function file equals its text when it is written to a file of its own"""
    from .. import render as R
    from . import c06
    import re as _re
    tus = R.sequential_tus(chk)
    it = c06.make(tus)
    mk = lambda: R.sample_module(it, extra_void=True)
    K = 7

    def defs(files):
        from .c09 import function_defs
        out = {}
        for name, text in files.items():
            if name.endswith('.c'):
                for fn_, texts in function_defs(text).items():
                    out[fn_] = texts[0]
        return out
    alone = defs(R.render(it, mk, 1, list(range(K)), []))
    chk.require(len(alone) == K, 'function sequence: %d functions rendered alone' % len(alone))
    for order in ([6, 0, 1, 2, 3, 4, 5], [0, 6, 1, 6 - 4, 3, 4, 5], [5, 4, 3, 2, 1, 0, 6], [2, 6, 0, 1, 3, 6 - 1, 4]):
        together = defs(R.render(it, mk, K, order, []))
        for fn_, text in sorted(alone.items()):
            chk.expect(together.get(fn_) == text, rule, 'fresh-stack[%s,order=%r]' % (fn_, order),
                       'function %s is emitted differently when it follows other functions in the same file (order %r): %r vs alone %r - the operand '
                       'stack / declarations of the previous function leak into it' % (fn_, order, together.get(fn_), text),
                       'wasmCWriteFunctionImplementations:per-function-reset')


def run(chk):
    chk.explanation = (
        'The control-flow emitters are partially evaluated on instruction scripts that instantiate each inductive step of the slot invariant '
        '(value at depth d lives in s<T><d>) at two stack heights and several result types: label placement, the move of a carried value to '
        'the slot at the label\'s entry height, restoration of the type-stack height, ignore-mode entry/exit, br_if/br_table/select/local roles, '
        'function prologue/epilogue. Ignore-mode equivalence is decided for every instruction of the oracle table: in dead code it emits '
        'nothing, keeps the stack and consumes exactly the immediates it consumes in live code. The induction over arbitrary nesting is not '
        'mechanised; these are its base and step cases.')
    chk.assumptions = ['C goto/switch/label semantics', 'validity of the translated module (stack heights at branches are those of the validation algorithm)']
    tus = emit.translator_tus(('c.c', 'opcode.c', 'instruction.c'), chk=chk)
    it = emit.make_interp(tus)
    vts = c01.value_types(it)
    tabs = c01.read_type_tables(chk, tus[0], it, vts, 'R03.5')
    LETTERS.update(tabs['letter'])
    DECL_COUNT[0] = 0
    check_labels(chk, it, tabs)
    check_branches(chk, it, tabs)
    check_ignore_equivalence(chk, it)
    check_parametric(chk, it, tabs)
    check_locals(chk, it, tabs)
    check_function_body(chk, tus, tabs)
    check_function_sequence(chk)
    check_unreachable_traps(chk, it)
    chk.floor('R03.6', 8)
    check_branch_family(chk, emit.make_interp(tus), tabs, chk.tier)
    chk.require(DECL_COUNT[0] >= 100, 'declared-slot rule evaluated on %d scripts only' % DECL_COUNT[0])
    chk.ok('R03.5', 'slots-declared', '%d control-flow scripts: every operand-stack variable in the emitted text is recorded in stackDeclarations, '
           'was on the initial stack or is the result slot of an enclosing label' % DECL_COUNT[0])
    chk.floor('R03.1', 20)
    chk.floor('R03.2', 40)
    chk.floor('R03.3', 400)
    chk.floor('R03.4', 15)
    chk.floor('R03.5', 10)
