"""C17  memory.atomic.wait / notify: no lost wake-ups, exact counts, exact return codes.

R17.1  effective address: the wait32 / wait64 / notify templates add the decoded static offset to the address operand
R17.2  critical sections: every access to the futex map, the wait lists and Wait.status happens with mem->mutex
       held; lock/unlock are balanced on every path including the allocation-failure exits (unlock precedes trap)
R17.3  check-then-enqueue is one region: no unlock between the load of the expected value and listPrepend
R17.4  waiting discipline: every condition wait uses mem->mutex and is followed by a re-test of Wait.status under
       the lock; return codes derive from that status; the node is unlinked before it is freed and the map entry is
       removed only when the list became empty, all in the same region
R17.5  counting: notify flips exactly the Waiting nodes it counts, signals each once, stops at `count`, returns the
       number flipped
R17.6  the map/list primitives the protocol relies on keep the bucket chains and wait lists intact: bounded shape
       analysis (chains of 1-3 colliding entries, every removal position, lookups, insertion) by partial evaluation
       on concrete heap shapes
R17.7  deadline arithmetic: wasmCondRelativeWait evaluated on a grid containing both sides of every carry point - the timespec
       given to pthread_cond_timedwait is normalised and equals now + timeout; ETIMEDOUT maps to "timed out"
"""
import re

from .. import astdb, pe, emit, oracle, templates, runtime, ctyperules as ct, memrules as mr
from ..astdb import AnalysisBroken
from ..pe import Ptr, unk, is_sym, Sym
from . import c01

FUTEX_FLAGS = ['-DWASM_THREADS_PTHREADS', '-DHAS_UNISTD=1', '-std=gnu90']
MAX_WAITS = 2


def futex_tu(chk):
    tu = astdb.dump_ast(astdb.src('futex/futex.c'), flags=FUTEX_FLAGS, config='futex')
    chk.unit(tu)
    return tu


class BoundReached(pe.PathAbort):
    pass


def futex_leafs(state):
    L = {}

    def ev(name, ret=None):
        def f(interp, args, node):
            interp.event(name, tuple(pe._hashable(a) for a in args), node)
            return ret() if callable(ret) else ret
        return f

    def load(name, ty):
        # every load of the cell is a value of its own (another thread may have stored in between); the symbol is recorded in the event
        def f(interp, args, node):
            k = state['loads'] = state.get('loads', 0) + 1
            v = unk(name if k == 1 else '%s-%d' % (name, k), ty)
            interp.event('load-expected', tuple(pe._hashable(a) for a in args) + (repr(v),), node)
            return v
        return f

    def calloc(interp, args, node):
        state['allocs'] += 1
        k = state['allocs']
        interp.event('calloc', (k,), node)
        if not interp.decide(unk('alloc-ok-%d' % k), node):
            return 0
        if k == 1:
            w = runtime.Traced(interp, 'wait', {'link': {'prev': 0, 'next': 0}, 'status': 0, 'cond': {'_opaque': 1}})
            cell = {'v': w}
            state['wait'] = w
            return Ptr(cell, 'v')
        m = {'v': {'buckets': 0, 'bucketCount': 0}}
        return Ptr(m, 'v')

    def cond_wait(name):
        def f(interp, args, node):
            state['waits'] += 1
            interp.event(name, tuple(pe._hashable(a) for a in args), node)
            if state['waits'] > MAX_WAITS:
                raise pe.PathAbort('wait-bound')
            w = state.get('wait')
            if w is not None:
                dict.__setitem__(w, 'status', unk('status-after-wait-%d' % state['waits'], 'enum WaitStatus'))
            if name == 'cond_timedwait':
                # wasmCondRelativeWait: != ETIMEDOUT
                return unk('timedwait-result-%d' % state['waits'])
            return 0
        return f

    def map_get(interp, args, node):
        interp.event('mapGet', tuple(pe._hashable(a) for a in args), node)
        if 'value_cell' in state:
            if interp.decide(unk('map-has-key'), node):
                return Ptr(state['value_cell'], 'v')
            return 0
        if interp.decide(unk('map-has-key'), node):
            state['slot'] = {'v': unk('existing-list-head')}
            return Ptr(state['slot'], 'v')
        return 0

    def map_insert(interp, args, node):
        interp.event('mapInsert', tuple(pe._hashable(a) for a in args), node)
        if interp.decide(unk('map-insert-ok'), node):
            state['slot'] = {'v': 0}
            return Ptr(state['slot'], 'v')
        return 0
    L.update({
        'pthread_mutex_lock': ev('lock'), 'pthread_mutex_unlock': ev('unlock'),
        'pthread_cond_wait': cond_wait('cond_wait'), 'wasmCondRelativeWait': cond_wait('cond_timedwait'),
        'pthread_cond_timedwait': cond_wait('cond_timedwait'),
        'pthread_cond_signal': ev('cond_signal', 0), 'pthread_cond_init': ev('cond_init', 0),
        'pthread_cond_destroy': ev('cond_destroy', 0),
        'calloc': calloc, 'free': ev('free'),
        'trap': ev('trap'),
        'i32_atomic_load': load('loaded32', 'unsigned int'),
        'i64_atomic_load': load('loaded64', 'unsigned long long'),
        'mapGet': map_get, 'mapInsert': map_insert,
        'mapRemove': ev('mapRemove', 0), 'mapInitialize': ev('mapInitialize'),
        'listPrepend': lambda i, a, n: (i.event('listPrepend', tuple(pe._hashable(x) for x in a), n), a[1])[1],
        'listRemove': lambda i, a, n: (i.event('listRemove', tuple(pe._hashable(x) for x in a), n), unk('list-after-remove'))[1],
        '__assert_fail': pe.leaf_abort('assert'),
    })
    return L


_NEG = {'==': '!=', '!=': '==', '<': '>=', '>=': '<', '>': '<=', '<=': '>'}
_SWAP = {'==': '==', '!=': '!=', '<': '>', '>': '<', '<=': '>=', '>=': '<='}


def cmpof(c):
    """(op, a, b) of a (normalised) comparison with casts stripped from both sides, else None"""
    c = pe.norm_cond(c)
    if is_sym(c) and len(c.args) == 2 and c.op in ('==', '!=', '<', '>', '<=', '>='):
        return (c.op, pe.strip_casts(c.args[0]), pe.strip_casts(c.args[1]))
    if is_sym(c) and c.op == '!':
        inner = cmpof(c.args[0])
        if inner is not None and inner[0] in _NEG:
            return (_NEG[inner[0]], inner[1], inner[2])
        return None
    if is_sym(c) and c.op not in ('&&', '||'):
        return ('!=', pe.strip_casts(c), 0)        # a bare value tested for truth
    return None


def decided(p, op, a, b, taken=True):
    """the path established `a op b` == taken - however the source spells the test (negated operator with the other outcome,
    swapped operands)"""
    for c, t, _ in p.decisions:
        x = cmpof(c)
        if x is None:
            continue
        for xop, xa, xb, xt in ((x[0], x[1], x[2], t), (_NEG[x[0]], x[1], x[2], not t)):
            if xt != taken:
                continue
            if (xop == op and xa == a and xb == b) or (_SWAP[xop] == op and xa == b and xb == a):
                return True
    return False


FUTEX_OPS = ('mapGet', 'mapInsert', 'mapRemove', 'mapInitialize', 'listPrepend', 'listRemove')


def wait_paths(tu, timeout_negative, timeout=None):
    """paths of wasmMemoryAtomicWait for one concrete timeout (default -1 = infinite / 1000 ns); 0 and 1 are the boundary values
    a zero-timeout 'poll' shortcut would single out"""
    state = {}

    def fresh():
        state.clear()
        state.update(allocs=0, waits=0, loads=0)
    it = pe.Interp([tu], futex_leafs(state), max_paths=2000)
    it.cur_tu = tu

    def setup():
        fresh()
        mem = {'v': runtime.memory_record(it, shared=True)}
        dict.__setitem__(mem['v'], 'futex', unk('futex-map') if True else 0)
        args = [Ptr(mem, 'v'), unk('address', 'unsigned int'), unk('expect', 'unsigned long long'),
                (timeout if timeout is not None else -1 if timeout_negative else 1000), unk('wait64')]
        return ('wasmMemoryAtomicWait', args, {'mem': mem['v'], 'st': state})
    return it.explore(setup)


def scan_locks(chk, p, site, rule_bal='R17.2'):
    """walk the trace; returns list of (index, event, held) and reports unbalanced paths"""
    held = 0
    out = []
    ok = True
    for i, (name, args, loc) in enumerate(p.events):
        if name == 'lock':
            held += 1
        elif name == 'unlock':
            held -= 1
        out.append((i, name, args, loc, held))
    return out, held


def check_wait(chk, tu):
    site = 'wasmMemoryAtomicWait'
    chk.fn(site)
    n_paths = 0
    for neg, tmo in ((True, None), (False, None), (False, 0), (False, 1)):
        paths = wait_paths(tu, neg, tmo)
        for p in paths:
            if p.aborted in ('wait-bound', 'assert'):
                continue
            n_paths += 1
            cond = p.cond_text()
            tag = '%s[%s]' % ('inf' if neg else 'timed' if tmo is None else 'timed=%d' % tmo, cond[:70])
            tr, held_end = scan_locks(chk, p, site)
            chk.expect(held_end == 0, 'R17.2', 'balanced:' + tag,
                       'wasmMemoryAtomicWait returns with the mutex %s on path %s' % ('held' if held_end > 0 else 'over-released', cond), site)
            bad = [(n, l) for i, n, a, l, h in tr if h <= 0 and (
                n in FUTEX_OPS or n in ('cond_wait', 'cond_timedwait') or
                (n in ('read', 'write') and ((a[0] == 'mem' and a[1] in ('futex', 'futexFree')) or (a[0] == 'wait' and a[1] == 'status'))))]
            chk.expect(not bad, 'R17.2', 'locked:' + tag,
                       'futex state is accessed without mem->mutex held: %r (path %s)' % (bad[:3], cond), site,
                       bad[0][1] if bad else None)
            traps = [i for i, n, a, l, h in tr if n == 'trap']
            for ti in traps:
                chk.expect(tr[ti][4] == 0, 'R17.2', 'unlock-before-trap:' + tag,
                           'trap is raised while mem->mutex is still held (the embedder handler does not return)', site, tr[ti][3])
            names = [n for i, n, a, l, h in tr]
            if 'listPrepend' in names:
                # the decision to sleep rests on the last load of the cell before the waiter is enqueued: that load is made with the mutex
                # held, the mutex stays held up to the enqueue, and it is this value that was found equal to `expect`.  An earlier load
                # (a lock-free fast path for the "not-equal" answer) decides nothing here
                b = names.index('listPrepend')
                lds = [i for i, n in enumerate(names[:b]) if n == 'load-expected']
                a = lds[-1] if lds else -1
                chk.expect(a >= 0 and tr[a][4] > 0 and 'unlock' not in names[a:b], 'R17.3', 'check-then-enqueue:' + tag,
                           'the cell is %s and the waiter is enqueued%s: a store and notify in between would be lost' % (
                               'never loaded' if a < 0 else 'last loaded without mem->mutex held' if tr[a][4] <= 0 else 'loaded under the mutex',
                               '' if a < 0 or tr[a][4] <= 0 else ' after the mutex was released in between'), site, tr[a][3] if a >= 0 else None)
                if a >= 0:
                    sym = tr[a][2][-1]
                    used = any(sym in [repr(x) for x in pe.sym_walk(c)] and unk('expect') in list(pe.sym_walk(c)) for c, t, _ in p.decisions)
                    chk.expect(used, 'R17.3', 'sleeps-on-locked-value:' + tag,
                               'the waiter is enqueued without the value loaded under the mutex (%s) having been compared with the expected value: '
                               'the comparison that decided to sleep used a value loaded before the mutex was taken' % sym, site, tr[a][3])
                # R17.4
                waits = [i for i, n in enumerate(names) if n in ('cond_wait', 'cond_timedwait')]
                chk.expect(bool(waits), 'R17.4', 'blocks:' + tag, 'waiter is enqueued but never blocks', site)
                for wi in waits:
                    mtx = tr[wi][2][1] if len(tr[wi][2]) > 1 else None
                    lockarg = [a for i, n, a, l, h in tr if n == 'lock'][0][0]
                    chk.expect(mtx == lockarg, 'R17.4', 'wait-uses-mutex:' + tag,
                               'condition wait releases %r, the protocol mutex is %r' % (mtx, lockarg), site, tr[wi][3])
                if waits:
                    after = tr[waits[-1] + 1:]
                    reread = [x for x in after if x[1] == 'read' and x[2] == ('wait', 'status')]
                    chk.expect(bool(reread) and all(x[4] > 0 for x in reread), 'R17.4', 'retest-status:' + tag,
                               'Wait.status is not re-read under the lock after the last condition wait', site)
                rm = names.index('listRemove') if 'listRemove' in names else -1
                fr = [i for i, n in enumerate(names) if n in ('free', 'cond_destroy')]
                chk.expect(rm >= 0 and all(i > rm for i in fr) and 'unlock' not in names[b:rm], 'R17.4', 'unlink-before-free:' + tag,
                           'the wait node is freed before it is unlinked from its list, or the lock is dropped in between '
                           '(events %r)' % names, site)
                if 'mapRemove' in names:
                    emptied = decided(p, '==', unk('list-after-remove'), 0)
                    chk.expect(emptied, 'R17.4', 'map-remove-only-if-empty:' + tag,
                               'the map entry is removed although the wait list may still contain other waiters', site)
                # return code derives from the status observed last
                last_status = unk('status-after-wait-%d' % len(waits)) if waits else None
                if p.ret == 0:
                    ok = decided(p, '==', last_status, 1) or decided(p, '==', last_status, 0, False)
                    chk.expect(ok, 'R17.4', 'ret-ok-iff-notified:' + tag, 'returns 0 ("ok") without having observed status == Notified', site)
                elif p.ret == 2:
                    ok = decided(p, '==', last_status, 0)
                    chk.expect(ok, 'R17.4', 'ret-timeout-iff-waiting:' + tag, 'returns 2 ("timed-out") although the waiter was notified', site)
                    chk.expect(not neg, 'R17.4', 'no-timeout-when-infinite:' + tag, 'infinite wait returns "timed-out"', site)
                elif p.ret != 0xFFFFFFFF:
                    chk.fail('R17.4', 'return-code:' + tag, 'unexpected return value %r' % (p.ret,), site)
            elif p.ret == 1:
                # not-equal: decided by comparing the loaded value with `expect`
                ok = any(unk('expect') in list(pe.sym_walk(c)) for c, t, _ in p.decisions)
                chk.expect(ok and 'load-expected' in names, 'R17.4', 'ret-not-equal:' + tag,
                           'returns 1 ("not-equal") without comparing the loaded cell with the expected value', site)
    chk.require(n_paths >= 6, 'only %d paths through wasmMemoryAtomicWait' % n_paths)
    return n_paths


def check_notify(chk, tu):
    site = 'wasmMemoryAtomicNotify'
    chk.fn(site)
    state = {}
    it = pe.Interp([tu], futex_leafs(state), max_paths=4000)
    it.cur_tu = tu
    NW = 3 if chk.tier == 'quick' else 5
    it.sym_loop_limit = max(it.sym_loop_limit, NW)

    def setup():
        state.clear()
        state.update(allocs=0, waits=0)
        mem = {'v': runtime.memory_record(it)}
        ws = []
        nxt = 0
        for k in reversed(range(NW)):
            w = runtime.Traced(it, 'wait%d' % k, {'link': {'prev': 0, 'next': nxt}, 'status': unk('status%d' % k), 'cond': {'_opaque': k}})
            cell = {'v': w}
            nxt = Ptr(cell, 'v')
            ws.append(w)
        state['value_cell'] = {'v': nxt}
        return ('wasmMemoryAtomicNotify', [Ptr(mem, 'v'), unk('address', 'unsigned int'), unk('count', 'unsigned int')],
                {'mem': mem['v']})
    paths = it.explore(setup)
    n = 0
    for p in paths:
        if p.aborted:
            continue
        n += 1
        cond = p.cond_text()
        tag = cond[:80]
        tr, held_end = scan_locks(chk, p, site)
        chk.expect(held_end == 0, 'R17.2', 'notify-balanced[%s]' % tag, 'notify returns with the mutex %s (path %s)'
                   % ('held' if held_end > 0 else 'over-released', cond), site)
        bad = [(nm, l) for i, nm, a, l, h in tr if h <= 0 and (nm in FUTEX_OPS or nm == 'cond_signal' or (
            nm in ('read', 'write') and ((a[0] == 'mem' and a[1] == 'futex') or (a[0].startswith('wait') and a[1] in ('status', 'link')))))]
        chk.expect(not bad, 'R17.2', 'notify-locked[%s]' % tag,
                   'notify touches futex state without the mutex: %r' % (bad[:3],), site, bad[0][1] if bad else None)
        flips = [(a[0], a[2]) for i, nm, a, l, h in tr if nm == 'write' and a[0].startswith('wait') and a[1] == 'status']
        signals = [a for i, nm, a, l, h in tr if nm == 'cond_signal']
        okflip = all(v == 1 for _, v in flips) and len(set(w for w, _ in flips)) == len(flips)
        # each flipped node was observed Waiting on this path
        for w, _ in flips:
            k = int(w[4:])
            seen = decided(p, '==', unk('status%d' % k), 0)
            okflip = okflip and seen
        chk.expect(okflip, 'R17.5', 'flips-only-waiting[%s]' % tag,
                   'notify changes the status of %r; each must be a distinct node observed Waiting and set to Notified' % (flips,), site)
        chk.expect(len(signals) == len(flips), 'R17.5', 'one-signal-per-flip[%s]' % tag,
                   '%d condition signals for %d woken waiters' % (len(signals), len(flips)), site)
        chk.expect(p.ret == len(flips), 'R17.5', 'returns-count[%s]' % tag,
                   'notify returns %r but woke %d waiters on path %s' % (p.ret, len(flips), cond), site)
        # bounded by count: before the k-th flip the loop tested (k-1) < count
        bound_ok = True
        for k in range(len(flips)):
            if not decided(p, '<', k, unk('count')):
                bound_ok = False
        chk.expect(bound_ok, 'R17.5', 'bounded-by-count[%s]' % tag,
                   'a waiter is woken without the test notified < count having succeeded (path %s)' % cond, site)
    chk.require(n >= 4, 'only %d paths through wasmMemoryAtomicNotify' % n)
    return n


def check_templates(chk):
    tus = emit.translator_tus(('c.c', 'opcode.c', 'instruction.c'), chk=chk)
    it = emit.make_interp(tus)
    vts = c01.value_types(it)
    tabs = c01.read_type_tables(chk, tus[0], it, vts, 'R17.1')
    rows = [oracle.BY_NAME[n] for n in ('memory.atomic.notify', 'memory.atomic.wait32', 'memory.atomic.wait64')]
    harness = templates.Harness(base_flags=['-DWASM_THREADS_PTHREADS'])
    plan = []
    base = len(mr.FILLER)
    for row in rows:
        nm = row['name']
        site = 'emitter/' + nm
        mt = mr.extract_mem(it, row, tabs, [(0, 0), (1, 0)])
        chk.require(mt.variants, 'no template for %s' % nm)
        mr.check_memarg_use(chk, 'R17.1', row, mt, site)
        want_align = oracle.natural_align(row['sem']['access'])
        for key, t in sorted(mt.variants.items()):
            chk.expect(t.stack_after == mr.FILLER + row['results'], 'R17.1', '%s%r:stack' % (nm, key),
                       'type stack after %s is %r' % (nm, t.stack_after), site)
            fn = 'W_%s_%d_%s' % (nm.replace('.', '_'), key[0], key[2].replace('-', '_'))
            harness.add(fn, t.text())
            plan.append((row, key, fn, t))
            if key[0] == 0:
                chk.sample(dict(op=nm, variant=key[2], template=t.text().strip()))
    tu = harness.parse('c17')
    for row, key, fn, t in plan:
        nm = row['name']
        site = 'emitter/' + nm
        dst, call, casts = mr.parse_call_template(tu, fn)
        ops = [mr.slot(tabs, ty, base + k) for k, ty in enumerate(row['params'])]
        args = list(call.a)
        inst = '%s%r' % (nm, key)
        want_fn = 'wasmMemoryAtomicNotify' if 'notify' in nm else 'wasmMemoryAtomicWait'
        chk.expect(call.x == want_fn and mr.mem_ref_ok(args[0]) and dst is not None and dst.x == mr.slot(tabs, 'i32', base),
                   'R17.1', inst + ':call', '%s template is %r' % (nm, call), site)
        # address argument: slot (+ offset), any width
        a = args[1]
        core = a
        while core.k == 'cast':
            core = core.a[0]
        with_off = key[2] in ('off', 'always-off')
        if with_off:
            ok = core.k == 'bin' and core.x == '+' and templates.OFFSET_MAGIC in [ct.const_value(x) for x in core.a] and \
                any(ct.iabs(x)[0] == 'slice' and ct.iabs(x)[1] == ops[0] and ct.iabs(x)[2] == 32 for x in core.a)
        else:
            v = ct.iabs(a)
            ok = v[0] == 'slice' and v[1] == ops[0] and v[2] == 32
        chk.expect(ok, 'R17.1', inst + ':address',
                   '%s: address argument is %r, expected address operand %s%s' % (nm, a, ops[0], ' + static offset' if with_off else ''), site)
        rest = [x for x in args[2:]]
        want_rest = ops[1:]
        got = []
        for x in rest[:len(want_rest)]:
            while x.k == 'cast':
                x = x.a[0]
            got.append(x.x if x.k == 'var' else None)
        chk.expect(got == want_rest, 'R17.1', inst + ':operands', '%s passes %r, expected %r' % (nm, got, want_rest), site)
        if 'wait' in nm:
            flag = ct.const_value(rest[-1]) if rest else None
            chk.expect(flag == (1 if row['sem']['access'] == 64 else 0), 'R17.1', inst + ':width-flag',
                       '%s passes wait64 = %r' % (nm, flag), site)


def run(chk):
    chk.explanation = (
        'R17.1: the three emitters are partially evaluated (both offset variants) and the call templates type-checked against '
        'w2c2_base.h. R17.2-R17.5: wasmMemoryAtomicWait/Notify of futex/futex.c are partially evaluated with a traced memory descriptor, '
        'traced Wait nodes, nondeterministic allocation/map results and status havoc at every condition wait (bounded to %d waits per '
        'path); each path yields an ordered trace of lock, unlock, condition wait/signal, map/list operations and field accesses on '
        'which the lock-region, pairing, ordering and counting rules are decided. These are the structural premises of the protocol; '
        'absence of lost wake-ups over all interleavings is a model-checking question and is not decided here.' % MAX_WAITS)
    chk.assumptions = ['pthread mutex/condvar semantics', 'map/list primitives behave as their names say (bodies not analysed here)',
                       'timeout arithmetic decided on a break-point grid (R17.7), for the pthreads configuration']
    check_templates(chk)
    tu = futex_tu(chk)
    nw = check_wait(chk, tu)
    nn = check_notify(chk, tu)
    check_shapes(chk)
    nd = check_deadline(chk, runtime.header('le'))
    chk.require(nd >= 100, 'deadline arithmetic evaluated on only %d grid points' % nd)
    chk.extra['wait_paths'] = nw
    chk.extra['notify_paths'] = nn
    # R17.8: "neither deadlocks" - wait and notify take the memory's mutex, which memory.grow, memory.size and (in the mutex-based
    # configuration) every atomic access take as well: each of those functions releases it on every path, otherwise the next wait or
    # notify on that memory blocks forever (mutex-balance rule shared with C18 R18.6)
    from . import c18
    c18.check_mutex_discipline(chk, rule='R17.8')
    chk.floor('R17.8', 20)
    chk.floor('R17.1', 12)
    chk.floor('R17.2', 20)
    chk.floor('R17.4', 10)
    chk.floor('R17.5', 20)


# ---- R17.7: deadline arithmetic of the timed wait ---------------------------------------------------------

def check_deadline(chk, tu):
    """wasmCondRelativeWait (pthreads) turns the relative timeout into an absolute timespec.  The computation is piecewise affine in
    (now.tv_nsec, timeout) with break points only where the nanosecond sum crosses a second, so it is evaluated on a grid that
    contains both sides of every break point; the timespec handed to pthread_cond_timedwait must be normalised (0 <= tv_nsec < 10^9)
    and denote exactly now + timeout, and the result must be `did not time out`"""
    fn = 'wasmCondRelativeWait'
    if fn not in tu.functions:
        chk.note('R17.7: %s is not defined in this configuration (no pthreads condition variables)' % fn)
        return 0
    chk.fn(fn)
    NS = 10 ** 9
    site = fn + ':deadline'
    n = 0
    etimedout = 110
    for S0 in (1700000000,):
        for N0 in (0, 1, 400000000, 999999998, 999999999):
            for tsec in (0, 1, 5):
                for tns in (0, 1, 600000000, 999999998, 999999999):
                    timeout = tsec * NS + tns
                    for rc in (0, etimedout):
                        seen = {}

                        def gettime(interp, args, node, S0=S0, N0=N0):
                            seen['clock'] = args[0]
                            ts = args[1]
                            interp.store(ts.c, ts.k, {'tv_sec': S0, 'tv_nsec': N0})
                            return 0

                        def timedwait(interp, args, node, rc=rc):
                            ts = args[2]
                            v = interp.load(ts.c, ts.k)
                            seen['ts'] = (v.get('tv_sec'), v.get('tv_nsec'))
                            return rc
                        it = pe.Interp([tu], {'clock_gettime': gettime, 'pthread_cond_timedwait': timedwait})
                        it.cur_tu = tu
                        try:
                            ps = [p for p in it.explore(lambda: (fn, [unk('cond'), unk('mutex'), timeout], {})) if not p.aborted]
                        except pe.PEError as e:
                            raise AnalysisBroken('%s(now=%d.%09d, timeout=%d): %s' % (fn, S0, N0, timeout, e))
                        inst = 'deadline[nsec=%d,timeout=%d,rc=%d]' % (N0, timeout, rc)
                        if not chk.expect(len(ps) == 1 and 'ts' in seen and all(isinstance(x, int) for x in seen['ts']), 'R17.7', inst,
                                          '%d paths, timespec %r' % (len(ps), seen.get('ts')), site):
                            continue
                        n += 1
                        sec, nsec = seen['ts']
                        want = S0 * NS + N0 + timeout
                        ok = 0 <= nsec < NS and sec * NS + nsec == want
                        chk.expect(ok, 'R17.7', inst,
                                   'at %d.%09d s a timeout of %d ns gives the absolute deadline %d.%09d s%s; expected %d.%09d s - the waiter would '
                                   'time out %s' % (S0, N0, timeout, sec, nsec, '' if 0 <= nsec < NS else ' (not a normalised timespec: EINVAL)',
                                                    want // NS, want % NS, 'early' if sec * NS + nsec < want else 'late'), site)
                        chk.expect(ps[0].ret == (0 if rc == etimedout else 1), 'R17.7', inst + ':result',
                                   '%s returns %r when pthread_cond_timedwait returns %d' % (fn, ps[0].ret, rc), fn + ':result')
    return n


# ---- R17.6: bounded shape analysis of the list / map primitives --------------------------------------------

def _chain(node_dicts):
    """link the node records into a doubly linked chain; returns head pointer (ListLink* to the first link)"""
    for i, n in enumerate(node_dicts):
        n['link']['prev'] = Ptr(node_dicts[i - 1], 'link') if i > 0 else 0
        n['link']['next'] = Ptr(node_dicts[i + 1], 'link') if i + 1 < len(node_dicts) else 0
    return Ptr(node_dicts[0], 'link') if node_dicts else 0


def _walk_chain(head, limit=8):
    """keys along next pointers + consistency of the prev links"""
    keys, ok = [], True
    prev = 0
    cur = head
    while cur != 0 and len(keys) < limit:
        if not isinstance(cur, Ptr):
            return keys, False
        rec = cur.c if cur.k == 'link' else cur.c[cur.k]
        link = rec['link']
        keys.append(rec.get('key', rec.get('id')))
        if (link['prev'] == 0) != (prev == 0) or (prev != 0 and link['prev'] != prev):
            ok = False
        prev = Ptr(rec, 'link')
        cur = link['next']
    return keys, ok and cur == 0


def check_shapes(chk):
    tus = [astdb.dump_ast(astdb.src('futex/map.c'), flags=FUTEX_FLAGS, config='futex'),
           astdb.dump_ast(astdb.src('futex/list.c'), flags=FUTEX_FLAGS, config='futex')]
    for t in tus:
        chk.unit(t)
    freed = []

    def mk_interp():
        def calloc(interp, args, node):
            rec = {'link': {'prev': 0, 'next': 0}, 'key': 0, 'value': 0}
            interp.path.state['new'] = rec
            return Ptr({'v': rec}, 'v')
        it = pe.Interp(tus, {'free': lambda i, a, n: (i.event('free', (pe._hashable(a[0]),), n), None)[1], 'calloc': calloc})
        return it
    BC = 4
    n_inst = 0
    for n in ((1, 2, 3) if chk.tier == 'quick' else (1, 2, 3, 4, 5, 6)):
        for pos in range(n):
            keys = [5 + BC * i for i in range(n)]          # all collide in bucket 5 % 4 = 1
            it = mk_interp()
            holder = {}

            def setup():
                nodes = [{'link': {'prev': 0, 'next': 0}, 'key': k, 'value': 'V%d' % k} for k in keys]
                buckets = [0] * BC
                buckets[1] = _chain(nodes)
                other = {'link': {'prev': 0, 'next': 0}, 'key': 2, 'value': 'V2'}
                buckets[2] = Ptr(other, 'link')
                m = {'buckets': Ptr(buckets, 0), 'bucketCount': BC}
                holder['buckets'] = buckets
                holder['nodes'] = nodes
                return ('mapRemove', [Ptr({'v': m}, 'v'), keys[pos]], {})
            paths = it.explore(setup)
            chk.require(len(paths) == 1, 'mapRemove has %d paths on a concrete chain' % len(paths))
            p = paths[0]
            got, consistent = _walk_chain(holder['buckets'][1])
            want = [k for i, k in enumerate(keys) if i != pos]
            n_inst += 1
            chk.expect(got == want and consistent and p.ret == 'V%d' % keys[pos], 'R17.6', 'mapRemove[chain=%d,pos=%d]' % (n, pos),
                       'removing key %d (position %d) from the bucket chain %r leaves %r (links consistent: %s), expected %r: entries of other '
                       'addresses that collide in the bucket are lost - their waiters become invisible to notify'
                       % (keys[pos], pos, keys, got, consistent, want), 'mapRemove:chain')
            og, oc = _walk_chain(holder['buckets'][2])
            chk.expect(og == [2], 'R17.6', 'mapRemove-other-bucket[chain=%d,pos=%d]' % (n, pos), 'another bucket changed: %r' % og, 'mapRemove:other-bucket')
            fr = [a[0] for nm, a, l in p.events if nm == 'free']
            chk.expect(len(fr) == 1, 'R17.6', 'mapRemove-frees-once[chain=%d,pos=%d]' % (n, pos), 'mapRemove frees %d nodes' % len(fr), 'mapRemove:free')
    # mapGet finds every key of a chain and only those; mapInsert prepends
    for n in ((0, 1, 3) if chk.tier == 'quick' else (0, 1, 2, 3, 4, 6)):
        keys = [5 + BC * i for i in range(n)]
        for probe in keys + [5 + BC * 7]:
            it = mk_interp()
            holder = {}

            def setup2():
                nodes = [{'link': {'prev': 0, 'next': 0}, 'key': k, 'value': 'V%d' % k} for k in keys]
                buckets = [0] * BC
                buckets[1] = _chain(nodes)
                holder['nodes'] = nodes
                return ('mapGet', [Ptr({'v': {'buckets': Ptr(buckets, 0), 'bucketCount': BC}}, 'v'), probe], {})
            p = it.explore(setup2)[0]
            if probe in keys:
                nd = holder['nodes'][keys.index(probe)]
                ok = isinstance(p.ret, Ptr) and p.ret.c is nd and p.ret.k == 'value'
            else:
                ok = p.ret == 0
            n_inst += 1
            chk.expect(ok, 'R17.6', 'mapGet[chain=%d,key=%d]' % (n, probe), 'mapGet(%d) on chain %r returns %r' % (probe, keys, p.ret), 'mapGet')
        it = mk_interp()
        holder = {}

        def setup3():
            nodes = [{'link': {'prev': 0, 'next': 0}, 'key': k, 'value': 'V%d' % k} for k in keys]
            buckets = [0] * BC
            buckets[1] = _chain(nodes)
            holder['buckets'] = buckets
            return ('mapInsert', [Ptr({'v': {'buckets': Ptr(buckets, 0), 'bucketCount': BC}}, 'v'), 5 + BC * 9], {})
        p = it.explore(setup3)[0]
        got, consistent = _walk_chain(holder['buckets'][1])
        chk.expect(got == [5 + BC * 9] + keys and consistent, 'R17.6', 'mapInsert[chain=%d]' % n,
                   'mapInsert into chain %r gives %r (consistent %s)' % (keys, got, consistent), 'mapInsert')
    # listRemove on wait lists (chains of Wait records, link first): every position, head updated
    for n in ((1, 2, 3) if chk.tier == 'quick' else (1, 2, 3, 4, 5, 6)):
        for pos in range(n):
            it = mk_interp()
            holder = {}

            def setup4():
                ws = [{'link': {'prev': 0, 'next': 0}, 'id': 'W%d' % i} for i in range(n)]
                head = _chain(ws)
                holder['ws'] = ws
                return ('listRemove', [head, Ptr(ws[pos], 'link')], {})
            p = it.explore(setup4)[0]
            got, consistent = _walk_chain(p.ret)
            want = ['W%d' % i for i in range(n) if i != pos]
            lk = holder['ws'][pos]['link']
            chk.expect(got == want and consistent and lk['prev'] == 0 and lk['next'] == 0, 'R17.6', 'listRemove[chain=%d,pos=%d]' % (n, pos),
                       'listRemove of element %d from a list of %d returns the list %r (consistent %s), expected %r' % (pos, n, got, consistent, want),
                       'listRemove')
            n_inst += 1
    it = mk_interp()
    holder = {}

    def setup5():
        ws = [{'link': {'prev': 0, 'next': 0}, 'id': 'W%d' % i} for i in range(2)]
        head = _chain(ws)
        new = {'link': {'prev': 0, 'next': 0}, 'id': 'N'}
        return ('listPrepend', [head, Ptr(new, 'link')], {})
    p = it.explore(setup5)[0]
    got, consistent = _walk_chain(p.ret)
    chk.expect(got == ['N', 'W0', 'W1'] and consistent, 'R17.6', 'listPrepend', 'listPrepend gives %r (consistent %s)' % (got, consistent), 'listPrepend')
    chk.floor('R17.6', 30)
