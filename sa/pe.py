"""Engine PE: partial evaluator / abstract interpreter over the clang JSON AST.

Domain: concrete integers (wrapped to their C type), C strings, pointers to storage cells,
records (dict), arrays (list) and *symbolic expressions* (Sym) over named unknowns.  A branch
on a symbolic condition forks; forking is implemented by deterministic re-execution with a
decision prefix, so client state is rebuilt from scratch for every path and no state cloning
is needed.  Every path yields its decisions (symbolic condition, outcome, location), the
return value and whatever the leaf models recorded (emitted text, events).

Nothing here executes compiled code: the "program" being interpreted is the AST of /repo's
current sources, and unknown inputs stay symbolic.
"""
import copy
import re

from . import astdb
from .astdb import kids, qtype, AnalysisBroken


class PEError(AnalysisBroken):
    pass


class OutOfBounds(PEError):
    """raised (only when Interp.strict_bounds is set) for a read past the end of a concrete array"""
    pass


class Sym:
    """symbolic expression"""
    __slots__ = ('op', 'args', 'ctype')

    def __init__(self, op, args=(), ctype=''):
        self.op = op
        self.args = tuple(args)
        self.ctype = ctype

    def __repr__(self):
        if self.op == 'unk':
            return '$' + str(self.args[0])
        if self.op == 'member':
            return '%r.%s' % (self.args[0], self.args[1])
        if self.op == 'cast':
            return '(%s)%r' % (self.ctype, self.args[0])
        if self.op == 'index':
            return '%r[%r]' % (self.args[0], self.args[1])
        if self.op == 'call':
            return '%s(%s)' % (self.args[0], ', '.join(repr(a) for a in self.args[1:]))
        if len(self.args) == 2:
            return '(%r %s %r)' % (self.args[0], self.op, self.args[1])
        if len(self.args) == 1:
            return '%s(%r)' % (self.op, self.args[0])
        return '%s%r' % (self.op, self.args)

    _NOTYPE = ('member', 'index', 'deref', 'unk', 'addr', 'call')

    def __eq__(self, other):
        return isinstance(other, Sym) and self.op == other.op and self.args == other.args \
            and (self.ctype == other.ctype or self.op in Sym._NOTYPE)

    def __hash__(self):
        return hash((self.op, self.args, '' if self.op in Sym._NOTYPE else self.ctype))


def unk(name, ctype=''):
    return Sym('unk', (name,), ctype)


def is_sym(v):
    return isinstance(v, Sym)


class Ptr:
    """pointer to storage cell container[key]; arithmetic only on list containers"""
    __slots__ = ('c', 'k')

    def __init__(self, c, k):
        self.c = c
        self.k = k

    def __repr__(self):
        return '&<%s>[%r]' % (type(self.c).__name__, self.k)

    def __eq__(self, other):
        return isinstance(other, Ptr) and self.c is other.c and self.k == other.k

    def __hash__(self):
        return hash((id(self.c), self.k))


class FuncRef:
    __slots__ = ('name',)

    def __init__(self, name):
        self.name = name

    def __repr__(self):
        return '<fn %s>' % self.name

    def __eq__(self, o):
        return isinstance(o, FuncRef) and o.name == self.name

    def __hash__(self):
        return hash(self.name)


class Text:
    """output buffer (string builder contents / FILE contents): list of str | Sym | tuple"""

    def __init__(self, name=''):
        self.name = name
        self.parts = []

    def add(self, p):
        if isinstance(p, str) and self.parts and isinstance(self.parts[-1], str):
            self.parts[-1] += p
        else:
            self.parts.append(p)

    def render(self, f=None):
        out = []
        for p in self.parts:
            if isinstance(p, str):
                out.append(p)
            elif f is not None:
                out.append(f(p))
            else:
                out.append('<%r>' % (p,))
        return ''.join(out)

    def __repr__(self):
        return 'Text(%s)' % self.render()


class _Goto(Exception):
    def __init__(self, label):
        Exception.__init__(self, label)
        self.label = label


class _Break(Exception):
    pass


class _Continue(Exception):
    pass


class _Return(Exception):
    def __init__(self, v):
        self.v = v


class PathAbort(Exception):
    """raised by leaf models (abort/exit) to end the current path"""

    def __init__(self, why):
        self.why = why


class _NeedFork(Exception):
    pass


SIZEOF = {'char': 1, 'signed char': 1, 'unsigned char': 1, 'short': 2, 'unsigned short': 2,
          'int': 4, 'unsigned int': 4, 'long': 8, 'unsigned long': 8, 'long long': 8,
          'unsigned long long': 8, 'float': 4, 'double': 8, '_Bool': 1}


def _clean(qt):
    return qt.replace('const ', '').replace('volatile ', '').replace(' const', '').strip()


class Path:
    """result of one explored path"""

    def __init__(self):
        self.decisions = []   # (cond Sym, bool taken, loc)
        self.ret = None
        self.events = []      # (name, args, loc)
        self.aborted = None
        self.state = None     # whatever the client's setup returned

    def cond_text(self):
        return ' && '.join(('%r' % c) if t else ('!%r' % c) for c, t, _ in self.decisions)


class Interp:
    def __init__(self, tus, leafs=None, max_paths=4096, max_loop=10000, max_depth=60):
        self.tus = list(tus)
        self.leafs = dict(leafs or {})
        self.max_paths = max_paths
        self.max_loop = max_loop
        self.max_depth = max_depth
        self.globals = {}
        self._fn_cache = {}
        self.path = None
        self._prefix = []
        self._ndec = 0
        self._known = {}
        self._eqconst = {}
        self.depth = 0
        self.sym_loop_limit = 3
        self.extern_hook = None     # optional hook(interp, name, args, node, default_result)
        self.loop_abort = False     # True: a symbolic loop that does not close ends the path ('loop-bound')
        self.inline_filter = None   # optional predicate(name) -> bool: interpret body?
        self.on_call = None         # optional hook(name, args, node)
        self.cur_tu = None

    # ---- exploration ------------------------------------------------------------------
    def explore(self, setup):
        """setup() -> (function name or FunctionDecl, [args], state). Returns [Path]."""
        paths = []
        work = [[]]
        while work:
            prefix = work.pop()
            if len(paths) >= self.max_paths:
                raise PEError('fork budget exceeded (%d paths)' % self.max_paths)
            self._prefix = prefix
            self._ndec = 0
            self._known = {}
            self._eqconst = {}
            self._ncall = 0
            self.path = Path()
            self.globals = {}
            self.depth = 0
            fn, args, state = setup()
            self.path.state = state
            try:
                self.path.ret = self.call(fn, args, None)
            except PathAbort as e:
                self.path.aborted = e.why
            decs = self.path.decisions
            # schedule the alternatives of the decisions taken beyond the prefix
            for i in range(len(prefix), len(decs)):
                if decs[i][3]:
                    alt = [d[1] for d in decs[:i]] + [not decs[i][1]]
                    work.append(alt)
            self.path.decisions = [(c, t, l) for c, t, l, _ in decs]
            paths.append(self.path)
        return paths

    def decide(self, cond, node=None):
        """branch on a value; symbolic values fork"""
        if not is_sym(cond):
            if isinstance(cond, Ptr) or isinstance(cond, FuncRef) or isinstance(cond, Text):
                return True
            if isinstance(cond, str):
                return True
            if isinstance(cond, (dict, list)):
                return True
            if isinstance(cond, float):
                return cond != 0.0
            return bool(cond)
        # a condition already decided on this path keeps its outcome (unknowns are immutable symbols)
        cond = norm_cond(cond)
        if cond.op == '!' and len(cond.args) == 1 and is_sym(cond.args[0]):
            return not self.decide(cond.args[0], node)     # decide the positive form (canonical)
        known = self._known
        if cond in known:
            return known[cond]
        if cond.op == '!' and cond.args[0] in known:
            return not known[cond.args[0]]
        if cond.op == '!=' and cond.args[1] == 0 and cond.args[0] in known:
            return known[cond.args[0]]
        # the complementary comparison of one already decided: (a < b) known  =>  (a >= b) is its negation; likewise mirrored operands
        if cond.op in _REL_NEG and len(cond.args) == 2:
            a_, b_ = cond.args
            for op2, x_, y_, neg in ((_REL_NEG[cond.op], a_, b_, True), (_REL_SWAP[cond.op], b_, a_, False),
                                     (_REL_NEG[_REL_SWAP[cond.op]], b_, a_, True)):
                try:
                    alt = Sym(op2, (x_, y_), cond.ctype)
                except Exception:
                    alt = None
                if alt is not None and alt in known:
                    return (not known[alt]) if neg else known[alt]
        # equality with distinct constants is exclusive: (X == c) decided true fixes X on this path
        eqc = None
        if cond.op in ('==', '!=') and len(cond.args) == 2:
            a, b = cond.args
            if is_sym(a) and isinstance(b, int) and not isinstance(b, bool):
                eqc = (a, b)
            elif is_sym(b) and isinstance(a, int):
                eqc = (b, a)
            if eqc is not None and eqc[0] in self._eqconst:
                same = self._eqconst[eqc[0]] == eqc[1]
                return same if cond.op == '==' else not same
        # a value fixed by an earlier equality decides later comparisons with constants (through value-preserving signed casts)
        if cond.op in ('<', '>', '<=', '>=', '==', '!=') and len(cond.args) == 2 and self._eqconst:
            a, b = cond.args
            flip = False
            if isinstance(a, int) and is_sym(b):
                a, b, flip = b, a, True
            if is_sym(a) and isinstance(b, int) and not isinstance(b, bool):
                x = a
                while is_sym(x) and x.op == 'cast' and x not in self._eqconst:
                    ti = astdb.int_type_info(self.tu_desugar(_clean(x.ctype)))
                    if ti is None or not ti[1] or ti[0] < 32:
                        break
                    x = x.args[0]
                if x in self._eqconst:
                    v = self._eqconst[x]
                    l, r = (b, v) if flip else (v, b)
                    return {'<': l < r, '>': l > r, '<=': l <= r, '>=': l >= r, '==': l == r, '!=': l != r}[cond.op]
        i = self._ndec
        self._ndec += 1
        loc = astdb.loc_str(node) if node is not None else '?'
        if i < len(self._prefix):
            t = self._prefix[i]
            self.path.decisions.append((cond, t, loc, False))
            known[cond] = t
            if eqc is not None and t == (cond.op == '=='):
                self._eqconst[eqc[0]] = eqc[1]
            return t
        self.path.decisions.append((cond, True, loc, True))
        known[cond] = True
        if eqc is not None and cond.op == '==':
            self._eqconst[eqc[0]] = eqc[1]
        return True

    def event(self, name, args, node=None):
        if node is None:
            node = getattr(self, 'cur_node', None)
        self.path.events.append((name, args, astdb.loc_str(node) if node is not None else '?'))

    # ---- function lookup --------------------------------------------------------------
    def find_fn(self, name, prefer=None):
        key = (name, id(prefer))
        if key in self._fn_cache:
            return self._fn_cache[key]
        res = None
        if prefer is not None and name in prefer.functions:
            res = (prefer.functions[name], prefer)
        else:
            for tu in self.tus:
                if name in tu.functions:
                    res = (tu.functions[name], tu)
                    break
        self._fn_cache[key] = res
        return res

    def find_var(self, rd):
        """top-level VarDecl for a referencedDecl (by id in current TU, else by name)"""
        tu = self.cur_tu
        if tu is not None:
            d = tu.byid.get(rd.get('id'))
            if d is not None:
                return d, tu
        for t in self.tus:
            d = t.vars.get(rd.get('name'))
            if d is not None:
                return d, t
        return None, None

    # ---- calls ------------------------------------------------------------------------
    def call(self, fn, args, node):
        name = fn if isinstance(fn, str) else fn.get('name')
        if self.on_call is not None:
            self.on_call(name, args, node)
        if name in self.leafs:
            return self.leafs[name](self, args, node)
        if isinstance(fn, str):
            found = self.find_fn(name, self.cur_tu)
            if found is None or (self.inline_filter is not None and not self.inline_filter(name)):
                self.event('extern:' + name, tuple(_hashable(a) for a in args), node)
                self._ncall = getattr(self, '_ncall', 0) + 1
                res = Sym('call', (name, self._ncall) + tuple(_hashable(a) for a in args), qtype(node) if node is not None else '')
                if self.extern_hook is not None:
                    r2 = self.extern_hook(self, name, args, node, res)
                    if r2 is not None:
                        return r2
                return res
            fdecl, tu = found
        else:
            fdecl, tu = fn, self.cur_tu
            for t in self.tus:
                if t.functions.get(name) is fdecl:
                    tu = t
        if self.depth > self.max_depth:
            raise PEError('call depth exceeded at %s' % name)
        params = astdb.fn_params(fdecl)
        frame = {}
        for i, p in enumerate(params):
            v = args[i] if i < len(args) else unk('arg%d' % i)
            frame[p['id']] = self.copy_val(v)
        body = astdb.fn_body(fdecl)
        saved_tu, saved_frame = self.cur_tu, getattr(self, 'frame', None)
        self.cur_tu, self.frame = tu, frame
        self.depth += 1
        try:
            self.exec_stmt(body)
            ret = None
        except _Return as r:
            ret = r.v
        except _Goto:
            raise PEError('goto to a label that is not a direct child of an enclosing block in %s' % fdecl.get('name'))
        finally:
            self.depth -= 1
            self.cur_tu, self.frame = saved_tu, saved_frame
        return ret

    # ---- values -----------------------------------------------------------------------
    def copy_val(self, v):
        if isinstance(v, dict):
            return {k: self.copy_val(x) for k, x in v.items()}
        if isinstance(v, list):
            return [self.copy_val(x) for x in v]
        return v

    def default_value(self, qt, name='?'):
        return unk('uninit:' + name, qt)

    def zero_value(self, node_type, tu=None):
        qt = _clean(node_type)
        if qt.endswith('*'):
            return 0
        if qt in SIZEOF:
            return 0.0 if qt in ('float', 'double') else 0
        return 0

    def load(self, c, k, node=None):
        try:
            if isinstance(c, dict):
                if k in c:
                    return c[k]
                if '_default' in c:
                    return c['_default'](k)
                if '_union' in c:
                    return Sym('member', (c.get('_self', unk('union')), k))
                raise PEError('read of missing field/variable %r at %s' % (k, astdb.loc_str(node) if node else '?'))
            if isinstance(c, list):
                if is_sym(k):
                    return Sym('index', (_hashable(c), k))
                if 0 <= k < len(c):
                    return c[k]
                if getattr(self, 'strict_bounds', False):
                    n_ = node if node is not None else getattr(self, 'cur_node', None)
                    raise OutOfBounds('read of element %d of a %d-element array at %s' % (k, len(c), astdb.loc_str(n_) if n_ else '?'))
                return unk('oob[%d]' % k)
            if isinstance(c, str):
                if is_sym(k):
                    return Sym('index', (c, k))
                return ord(c[k]) if 0 <= k < len(c) else 0
        except TypeError:
            pass
        raise PEError('cannot load from %r[%r]' % (type(c).__name__, k))

    def store(self, c, k, v, node=None):
        if isinstance(c, dict):
            c[k] = v
            return
        if isinstance(c, list):
            if is_sym(k):
                self.event('store-sym-index', (k, _hashable(v)), node)
                return
            if getattr(self, 'strict_store_bounds', False) and isinstance(k, int) and not 0 <= k < len(c):
                n_ = node if node is not None else getattr(self, 'cur_node', None)
                raise OutOfBounds('write of element %d of a %d-element array at %s' % (k, len(c), astdb.loc_str(n_) if n_ else '?'))
            while len(c) <= k:
                c.append(0)
            c[k] = v
            return
        raise PEError('cannot store to %r at %s' % (type(c).__name__, astdb.loc_str(node) if node else '?'))

    # ---- lvalues ----------------------------------------------------------------------
    def lvalue(self, node):
        """-> (container, key) or ('sym', Sym)"""
        k = node.get('kind')
        if k in ('ParenExpr',):
            return self.lvalue(kids(node)[0])
        if k == 'DeclRefExpr':
            rd = node['referencedDecl']
            did = rd['id']
            if did in self.frame:
                return (self.frame, did)
            return self.global_cell(rd, node)
        if k == 'MemberExpr':
            base = kids(node)[0]
            fld = node['name']
            if node.get('isArrow'):
                p = self.eval(base)
                if isinstance(p, Ptr):
                    s = self.load(p.c, p.k, node)
                elif is_sym(p):
                    return ('sym', Sym('member', (Sym('deref', (p,)), fld), qtype(node)))
                elif p == 0:
                    raise PEError('NULL dereference ->%s at %s' % (fld, astdb.loc_str(node)))
                else:
                    raise PEError('-> on non-pointer %r at %s' % (p, astdb.loc_str(node)))
            else:
                lv = self.lvalue(base)
                if lv[0] == 'sym':
                    return ('sym', Sym('member', (lv[1], fld), qtype(node)))
                s = self.load(lv[0], lv[1], node)
            if is_sym(s):
                return ('sym', Sym('member', (s, fld), qtype(node)))
            if not isinstance(s, dict):
                raise PEError('member %s of non-record %r at %s' % (fld, s, astdb.loc_str(node)))
            if '_union' in s and getattr(self, 'union_endian', None):
                self._union_sync(s, fld, qtype(base) if not node.get('isArrow') else qtype(base).rstrip().rstrip('*'))
            if fld not in s and '_default' not in s and '_union' not in s and node.get('isArrow'):
                # C idiom: a pointer to a record and a pointer to its first member are interchangeable
                first = next((k for k in s if not str(k).startswith('_')), None)
                if first is not None and isinstance(s[first], dict) and fld in s[first]:
                    s = s[first]
                elif isinstance(p, Ptr) and isinstance(p.c, dict) and fld in p.c and \
                        next((k for k in p.c if not str(k).startswith('_')), None) == p.k:
                    s = p.c
            return (s, fld)
        if k == 'ArraySubscriptExpr':
            a, i = kids(node)
            p = self.eval(a)
            idx = self.eval(i)
            if isinstance(p, Ptr):
                if isinstance(p.c, (list, str)):
                    if is_sym(idx):
                        return ('sym', Sym('index', (_hashable(p), idx), qtype(node)))
                    return (p.c, p.k + idx)
                if idx == 0:
                    return (p.c, p.k)
                raise PEError('index into scalar cell at %s' % astdb.loc_str(node))
            if isinstance(p, str):
                return (p, idx)
            if is_sym(p):
                return ('sym', Sym('index', (p, _hashable(idx)), qtype(node)))
            raise PEError('subscript of %r at %s' % (p, astdb.loc_str(node)))
        if k == 'UnaryOperator' and node.get('opcode') == '__extension__':
            return self.lvalue(kids(node)[0])
        if k in ('StmtExpr', 'PredefinedExpr', 'StringLiteral'):
            cell = {'v': self.eval(node)}
            return (cell, 'v')
        if k == 'UnaryOperator' and node.get('opcode') == '*':
            p = self.eval(kids(node)[0])
            if isinstance(p, Ptr):
                return (p.c, p.k)
            if isinstance(p, str):
                return (p, 0)
            if is_sym(p):
                return ('sym', Sym('deref', (p,), qtype(node)))
            raise PEError('deref of %r at %s' % (p, astdb.loc_str(node)))
        if k in ('ImplicitCastExpr', 'CStyleCastExpr') and node.get('castKind') in ('NoOp', 'LValueBitCast'):
            return self.lvalue(kids(node)[0])
        if k == 'CompoundLiteralExpr':
            cell = {'v': self.eval(kids(node)[0])}
            return (cell, 'v')
        raise PEError('unsupported lvalue %s at %s' % (k, astdb.loc_str(node)))

    def global_cell(self, rd, node):
        did = rd['id']
        if did in self.globals:
            return (self.globals, did)
        if rd.get('kind') == 'FunctionDecl':
            self.globals[did] = FuncRef(rd['name'])
            return (self.globals, did)
        vd, tu = self.find_var(rd)
        if vd is None:
            # static local of another frame or unknown extern
            self.globals[did] = unk('global:' + rd.get('name', '?'), (rd.get('type') or {}).get('qualType', ''))
            return (self.globals, did)
        ini = [c for c in kids(vd) if c.get('kind')]
        if ini and vd.get('init'):
            saved = self.cur_tu
            self.cur_tu = tu
            try:
                self.globals[did] = self.eval_init(ini[-1], qtype(vd))
            finally:
                self.cur_tu = saved
        elif getattr(self, 'program_start', False) and vd.get('storageClass') != 'extern':
            # evaluation from program start: an object with static storage duration and no initialiser is zero
            self.globals[did] = self.zero_init(qtype(vd))
        else:
            self.globals[did] = unk('global:' + rd.get('name', '?'), qtype(vd))
        return (self.globals, did)

    # ---- initialisers -----------------------------------------------------------------
    def record_fields(self, qt):
        """field names of struct type `qt` (desugared 'struct X' / 'union X')"""
        q = _clean(qt)
        for pre in ('struct ', 'union '):
            if q.startswith(pre):
                name = q[len(pre):]
                for tu in ([self.cur_tu] if self.cur_tu else []) + self.tus:
                    r = tu.record(name)
                    if r is not None:
                        return [(c['name'], qtype(c)) for c in kids(r) if c.get('kind') == 'FieldDecl'], r.get('tagUsed')
        return None, None

    def _union_sync(self, u, fld, uq):
        """type punning between an integer member and a byte-array member of a union, in the byte order Interp.union_endian"""
        last = u.get('_last')
        if last is None:
            last = next((k for k in u if not str(k).startswith('_')), None)
        u['_last'] = fld
        if last is None or last == fld or last not in u:
            return
        fields, tag = self.record_fields(uq)
        if not fields:
            return
        ft = dict(fields)
        src, dst_t, src_t = u[last], _clean(ft.get(fld, '')), _clean(ft.get(last, ''))
        big = self.union_endian == 'big'
        di, si = astdb.int_type_info(self.tu_desugar(dst_t)), astdb.int_type_info(self.tu_desugar(src_t))
        if isinstance(src, list) and di is not None and all(isinstance(b, int) for b in src[:di[0] // 8]):
            bs = [b & 0xff for b in src[:di[0] // 8]]
            v = int.from_bytes(bytes(bs), 'big' if big else 'little')
            if di[1] and v >> (di[0] - 1):
                v -= 1 << di[0]
            u[fld] = v
        elif isinstance(src, int) and _array_len(dst_t) is not None and si is not None:
            n = si[0] // 8
            u[fld] = list((src & ((1 << si[0]) - 1)).to_bytes(n, 'big' if big else 'little')) + [0] * max(0, _array_len(dst_t) - n)
        elif isinstance(src, int) and si is not None and di is not None and di[0] <= si[0] and not big:
            # integer members of a little-endian union share their low-order bytes
            v = src & ((1 << di[0]) - 1)
            if di[1] and v >> (di[0] - 1):
                v -= 1 << di[0]
            u[fld] = v
        elif isinstance(src, int) and si is not None and self.tu_desugar(dst_t) in ('float', 'double') and \
                si[0] == (32 if self.tu_desugar(dst_t) == 'float' else 64):
            import struct
            raw = (src & ((1 << si[0]) - 1)).to_bytes(si[0] // 8, 'little')
            u[fld] = struct.unpack('<f' if si[0] == 32 else '<d', raw)[0]
        elif isinstance(src, float) and di is not None and self.tu_desugar(src_t) in ('float', 'double') and \
                di[0] == (32 if self.tu_desugar(src_t) == 'float' else 64):
            import struct
            v = int.from_bytes(struct.pack('<f' if di[0] == 32 else '<d', src), 'little')
            if di[1] and v >> (di[0] - 1):
                v -= 1 << di[0]
            u[fld] = v
        else:
            u.pop(fld, None)

    def tu_desugar(self, t):
        tu = self.cur_tu or (self.tus[0] if self.tus else None)
        return tu.desugar(t) if tu is not None else t

    def eval_init(self, node, qt):
        if node.get('kind') == 'InitListExpr':
            fields, tag = self.record_fields(qtype(node))
            elems = [c for c in kids(node)]
            if fields is not None:
                if tag == 'union':
                    d = {'_union': True}
                    if elems:
                        d[fields[0][0]] = self.eval_init(elems[0], fields[0][1])
                    return d
                d = {}
                for i, (fname, ftype) in enumerate(fields):
                    if i < len(elems):
                        d[fname] = self.eval_init(elems[i], ftype)
                    else:
                        d[fname] = self.zero_init(ftype)
                return d
            filler = node.get('array_filler')
            if filler is not None:
                elems = [c for c in filler if isinstance(c, dict) and c.get('kind') != 'ImplicitValueInitExpr']
            vals = [self.eval_init(c, qtype(c)) for c in elems]
            n = _array_len(qtype(node))
            if n is not None:
                while len(vals) < n:
                    vals.append(self.zero_init(_array_elem(qtype(node))))
            return vals
        if node.get('kind') == 'ImplicitValueInitExpr':
            return self.zero_init(qtype(node))
        v = self.eval(node)
        if isinstance(v, str) and _array_len(_clean(qt)) is not None:
            # char buf[N] = "..."
            n = _array_len(_clean(qt))
            return [ord(ch) for ch in v] + [0] * max(0, n - len(v))
        return self.copy_val(v)

    def zero_init(self, qt):
        q = _clean(qt)
        n = _array_len(q)
        if n is not None:
            return [self.zero_init(_array_elem(q)) for _ in range(n)]
        fields, tag = self.record_fields(q)
        if fields is not None:
            if tag == 'union':
                return {'_union': True, fields[0][0]: self.zero_init(fields[0][1])}
            return {f: self.zero_init(t) for f, t in fields}
        if q in ('float', 'double'):
            return 0.0
        return 0

    def uninit(self, qt, name):
        q = _clean(qt)
        n = _array_len(q)
        if n is not None:
            return [self.uninit(_array_elem(q), '%s[%d]' % (name, i)) for i in range(min(n, 4096))]
        fields, tag = self.record_fields(q)
        if fields is not None:
            if tag == 'union':
                return {'_union': True, '_self': unk('uninit:' + name, q)}
            return {f: self.uninit(t, name + '.' + f) for f, t in fields}
        return unk('uninit:' + name, q)

    # ---- statements -------------------------------------------------------------------
    def exec_stmt(self, node):
        if not node:
            return
        k = node.get('kind')
        if k is None:
            return
        if k == 'CompoundStmt':
            inner = node.get('inner', [])
            i, jumps = 0, 0
            while i < len(inner):
                try:
                    self.exec_stmt(inner[i])
                except _Goto as g:
                    # a label that is a direct child of this block (the cleanup-label idiom); otherwise an enclosing block has it
                    tgt = [j for j, c in enumerate(inner) if c.get('kind') == 'LabelStmt' and c.get('declId') == g.label]
                    if not tgt:
                        raise
                    jumps += 1
                    if jumps > self.max_loop:
                        raise PEError('goto loop not closed at %s' % astdb.loc_str(node))
                    i = tgt[0]
                    continue
                i += 1
            return
        if k == 'DeclStmt':
            for d in node.get('inner', []):
                if d.get('kind') == 'VarDecl':
                    self.exec_vardecl(d)
            return
        if k == 'IfStmt':
            inner = node['inner']
            c = self.eval(inner[0])
            if self.decide(c, inner[0]):
                self.exec_stmt(inner[1])
            elif len(inner) > 2:
                self.exec_stmt(inner[2])
            return
        if k == 'ReturnStmt':
            inner = [c for c in node.get('inner', []) if c]
            raise _Return(self.eval(inner[0]) if inner else None)
        if k == 'SwitchStmt':
            return self.exec_switch(node)
        if k == 'ForStmt':
            init, _cv, cond, inc, body = node['inner']
            self.exec_stmt(init)
            n = 0
            nsym = 0
            while True:
                if cond:
                    c = self.eval(cond)
                    if is_sym(c):
                        nsym += 1
                        if nsym > self.sym_loop_limit:
                            if self.loop_abort:
                                raise PathAbort('loop-bound')
                            raise PEError('loop with symbolic bound not closed after %d iterations at %s'
                                          % (self.sym_loop_limit, astdb.loc_str(node)))
                    if not self.decide(c, cond):
                        break
                try:
                    self.exec_stmt(body)
                except _Break:
                    break
                except _Continue:
                    pass
                if inc:
                    self.eval(inc)
                n += 1
                if n > self.max_loop:
                    raise PEError('loop bound exceeded at %s' % astdb.loc_str(node))
            return
        if k == 'WhileStmt':
            cond, body = node['inner'][-2], node['inner'][-1]
            n = 0
            nsym = 0
            while True:
                c = self.eval(cond)
                if is_sym(c):
                    nsym += 1
                    if nsym > self.sym_loop_limit:
                        if self.loop_abort:
                            raise PathAbort('loop-bound')
                        raise PEError('while with symbolic condition not closed at %s' % astdb.loc_str(node))
                if not self.decide(c, cond):
                    break
                try:
                    self.exec_stmt(body)
                except _Break:
                    break
                except _Continue:
                    pass
                n += 1
                if n > self.max_loop:
                    raise PEError('loop bound exceeded at %s' % astdb.loc_str(node))
            return
        if k == 'DoStmt':
            body, cond = node['inner']
            n = 0
            while True:
                try:
                    self.exec_stmt(body)
                except _Break:
                    break
                except _Continue:
                    pass
                if not self.decide(self.eval(cond), cond):
                    break
                n += 1
                if n > self.max_loop:
                    raise PEError('loop bound exceeded at %s' % astdb.loc_str(node))
            return
        if k == 'BreakStmt':
            raise _Break()
        if k == 'ContinueStmt':
            raise _Continue()
        if k == 'NullStmt':
            return
        if k in ('CaseStmt', 'DefaultStmt'):
            # reached by fall-through
            self.exec_stmt(node['inner'][-1])
            return
        if k == 'LabelStmt':
            self.exec_stmt(node['inner'][-1])
            return
        if k == 'GotoStmt':
            if not node.get('targetLabelDeclId'):
                raise PEError('goto with unknown target at %s' % astdb.loc_str(node))
            raise _Goto(node['targetLabelDeclId'])
        # expression statement
        self.eval(node)

    def exec_vardecl(self, d):
        ini = [c for c in kids(d) if c.get('kind')]
        if d.get('storageClass') == 'static':
            # static locals: evaluate the initialiser (they are constants in this code base); when evaluating from program start they
            # are objects that keep their value between calls
            if getattr(self, 'program_start', False):
                if d['id'] not in self.globals:
                    self.globals[d['id']] = self.eval_init(ini[-1], qtype(d)) if ini and d.get('init') else self.zero_init(qtype(d))
                return
        if ini and d.get('init'):
            self.frame[d['id']] = self.eval_init(ini[-1], qtype(d))
        else:
            self.frame[d['id']] = self.uninit(qtype(d), d.get('name', '?'))

    def exec_switch(self, node):
        inner = node['inner']
        cond = inner[-2]
        body = inner[-1]
        v = self.eval(cond)
        stmts = body.get('inner', []) if body.get('kind') == 'CompoundStmt' else [body]
        # flatten labels: list of (index, kind, value) for case labels at the top level of body
        labels = []
        for i, s in enumerate(stmts):
            cur = s
            while cur and cur.get('kind') in ('CaseStmt', 'DefaultStmt'):
                if cur['kind'] == 'CaseStmt':
                    cv = astdb.const_int(cur['inner'][0], self.cur_tu)
                    if cv is None:
                        cv = self.eval(cur['inner'][0])
                    labels.append((i, cv, cur))
                else:
                    labels.append((i, 'default', cur))
                cur = cur['inner'][-1]
        target = None
        if is_sym(v):
            for i, cv, cur in labels:
                if cv == 'default':
                    continue
                if self.decide(Sym('==', (v, cv)), cur):
                    target = i
                    break
        else:
            for i, cv, cur in labels:
                if cv != 'default' and cv == v:
                    target = i
                    break
        if target is None:
            for i, cv, cur in labels:
                if cv == 'default':
                    target = i
        if target is None:
            return
        try:
            for s in stmts[target:]:
                cur = s
                while cur and cur.get('kind') in ('CaseStmt', 'DefaultStmt'):
                    cur = cur['inner'][-1]
                self.exec_stmt(cur)
        except _Break:
            pass

    # ---- expressions ------------------------------------------------------------------
    def eval(self, node):
        self.cur_node = node
        k = node.get('kind')
        m = getattr(self, 'e_' + k, None)
        if m is None:
            raise PEError('unsupported expression %s at %s' % (k, astdb.loc_str(node)))
        return m(node)

    def e_ParenExpr(self, n):
        return self.eval(kids(n)[0])

    def e_ConstantExpr(self, n):
        return self.eval(kids(n)[0])

    def e_IntegerLiteral(self, n):
        return int(n['value'])

    def e_CharacterLiteral(self, n):
        return int(n['value'])

    def e_FloatingLiteral(self, n):
        return float(n['value'])

    def e_StringLiteral(self, n):
        return astdb.c_unescape(n['value'])

    def e_PredefinedExpr(self, n):
        return '<func>'

    def e_ImplicitValueInitExpr(self, n):
        return self.zero_init(qtype(n))

    def e_InitListExpr(self, n):
        return self.eval_init(n, qtype(n))

    def e_CompoundLiteralExpr(self, n):
        return self.eval(kids(n)[0])

    def e_DeclRefExpr(self, n):
        rd = n['referencedDecl']
        if rd.get('kind') == 'EnumConstantDecl':
            v = None
            if self.cur_tu is not None:
                v = self.cur_tu.enums.get(rd['name'])
            if v is None:
                for t in self.tus:
                    if rd['name'] in t.enums:
                        v = t.enums[rd['name']]
                        break
            if v is None:
                raise PEError('unknown enumerator %s' % rd['name'])
            return v
        if rd.get('kind') == 'FunctionDecl':
            return FuncRef(rd['name'])
        c, key = self.lvalue(n)
        return self.load(c, key, n)

    def e_MemberExpr(self, n):
        lv = self.lvalue(n)
        if lv[0] == 'sym':
            return lv[1]
        return self.load(lv[0], lv[1], n)

    def e_ArraySubscriptExpr(self, n):
        lv = self.lvalue(n)
        if lv[0] == 'sym':
            return lv[1]
        return self.load(lv[0], lv[1], n)

    def e_UnaryExprOrTypeTraitExpr(self, n):
        name = n.get('name')
        at = n.get('argType')
        if at:
            qt = _clean(at.get('desugaredQualType') or at.get('qualType'))
        else:
            qt = _clean(qtype(kids(n)[0]))
        if name == 'sizeof':
            s = self.sizeof(qt)
            if s is not None:
                return s
        return Sym(name or 'sizeof', (qt,))

    def sizeof(self, qt):
        qt = _clean(qt)
        if qt in SIZEOF:
            return SIZEOF[qt]
        if qt.endswith('*') or re.search(r'\*\s*(const|volatile|restrict)(\s+(const|volatile|restrict))*$', qt):
            return 8
        if re.search(r'\(\s*\*\s*(const\s*)?\)\s*\(', qt) and _array_len(qt) is None:
            return 8        # pointer to function
        n = _array_len(qt)
        if n is not None:
            e = self.sizeof(_array_elem(qt))
            return None if e is None else n * e
        if qt.startswith('enum '):
            return 4
        fields, tag = self.record_fields(qt)
        if fields is None and depth_ok(qt):
            d = _clean(self.tu_desugar(qt))
            if d != qt:
                return self.sizeof(d)
        if fields is not None:
            # natural alignment layout
            off = 0
            maxa = 1
            sizes = []
            for f, t in fields:
                s = self.sizeof(t)
                if s is None:
                    return None
                a = self.alignof(t)
                maxa = max(maxa, a)
                if tag == 'union':
                    sizes.append(s)
                else:
                    off = (off + a - 1) // a * a + s
            total = max(sizes) if tag == 'union' and sizes else off
            return (total + maxa - 1) // maxa * maxa
        return None

    def alignof(self, qt):
        qt = _clean(qt)
        n = _array_len(qt)
        if n is not None:
            return self.alignof(_array_elem(qt))
        fields, tag = self.record_fields(qt)
        if fields is not None:
            return max([self.alignof(t) for f, t in fields] or [1])
        s = self.sizeof(qt)
        return s or 1

    def e_ImplicitCastExpr(self, n):
        return self.cast(n)

    def e_CStyleCastExpr(self, n):
        return self.cast(n)

    def cast(self, n):
        ck = n.get('castKind')
        sub = kids(n)[0]
        if ck == 'LValueToRValue':
            lv = self.lvalue(sub)
            if lv[0] == 'sym':
                return lv[1]
            bl = getattr(self, 'byte_lists', None)
            if bl and isinstance(lv[0], list) and id(lv[0]) in bl and isinstance(lv[1], int):
                # typed access to a registered byte array (concrete linear memory): assemble the object from its bytes
                ti_ = astdb.int_type_info(self.tu_desugar(_clean(qtype(n))).replace('const ', '').replace('volatile ', '').strip())
                if ti_ is not None and ti_[0] > 8:
                    nb = ti_[0] // 8
                    bs_ = [self.load(lv[0], lv[1] + i, n) for i in range(nb)]
                    if all(isinstance(b_, int) for b_ in bs_):
                        v_ = int.from_bytes(bytes(b_ & 0xFF for b_ in bs_), bl[id(lv[0])])
                        if ti_[1] and v_ >> (ti_[0] - 1):
                            v_ -= 1 << ti_[0]
                        return v_
            v = self.load(lv[0], lv[1], n)
            if isinstance(lv[0], str) and isinstance(v, int) and v >= 128 and getattr(self, 'char_signed', True):
                # a byte of a host string read through a plain/signed char lvalue: the analysed target's char is signed
                t = self.tu_desugar(_clean(qtype(n))).replace('const ', '').strip()
                if t in ('char', 'signed char'):
                    v -= 256
            return v
        if ck == 'ArrayToPointerDecay':
            if sub.get('kind') == 'StringLiteral':
                return self.eval(sub)
            lv = self.lvalue(sub)
            if lv[0] == 'sym':
                return lv[1]
            arr = self.load(lv[0], lv[1], n)
            if isinstance(arr, (list, str)):
                return Ptr(arr, 0) if isinstance(arr, list) else arr
            if is_sym(arr):
                return arr
            raise PEError('decay of non-array %r at %s' % (arr, astdb.loc_str(n)))
        if ck == 'FunctionToPointerDecay':
            return self.eval(sub)
        if ck == 'BuiltinFnToFnPtr':
            return FuncRef((sub.get('referencedDecl') or {}).get('name', '?'))
        v = self.eval(sub)
        if ck in ('NoOp', 'BitCast', 'NullToPointer', 'ToVoid', 'LValueBitCast'):
            if ck == 'ToVoid':
                return None
            return v
        if ck == 'IntegralCast':
            if is_sym(v):
                return Sym('cast', (v,), qtype(n))
            if isinstance(v, float):
                v = int(v)
            if isinstance(v, int):
                return astdb.wrap_int(v, qtype(n))
            return v
        if ck in ('IntegralToBoolean', 'PointerToBoolean', 'FloatingToBoolean'):
            if is_sym(v):
                return Sym('!=', (v, 0))
            return int(self.decide(v))
        if ck == 'IntegralToPointer':
            return v
        if ck == 'PointerToIntegral':
            return v if isinstance(v, int) else Sym('cast', (_hashable(v),), qtype(n))
        if ck in ('IntegralToFloating', 'FloatingCast'):
            if is_sym(v):
                return Sym('cast', (v,), qtype(n))
            return float(v)
        if ck == 'FloatingToIntegral':
            if is_sym(v):
                return Sym('cast', (v,), qtype(n))
            return astdb.wrap_int(int(v), qtype(n))
        raise PEError('unsupported cast %s at %s' % (ck, astdb.loc_str(n)))

    def e_UnaryOperator(self, n):
        op = n['opcode']
        sub = kids(n)[0]
        if op == '&':
            if sub.get('kind') == 'DeclRefExpr' and sub['referencedDecl'].get('kind') == 'FunctionDecl':
                return FuncRef(sub['referencedDecl']['name'])
            lv = self.lvalue(sub)
            if lv[0] == 'sym':
                return Sym('addr', (lv[1],))
            return Ptr(lv[0], lv[1])
        if op == '*':
            lv = self.lvalue(n)
            if lv[0] == 'sym':
                return lv[1]
            return self.load(lv[0], lv[1], n)
        if op in ('++', '--'):
            lv = self.lvalue(sub)
            if lv[0] == 'sym':
                self.event('store-sym', (lv[1],), n)
                return lv[1]
            old = self.load(lv[0], lv[1], n)
            d = 1 if op == '++' else -1
            if isinstance(old, Ptr):
                new = Ptr(old.c, old.k + d)
            elif is_sym(old):
                new = Sym('+', (old, d), qtype(n))
            elif isinstance(old, str):
                new = Ptr(old, d)        # pointer into a C string: keep the base so that p - 1 / p != base work
            else:
                new = astdb.wrap_int(old + d, qtype(n))
            self.store(lv[0], lv[1], new, n)
            return old if n.get('isPostfix') else new
        v = self.eval(sub)
        if op == '!':
            if is_sym(v):
                return Sym('!', (v,))
            return int(not self.decide(v))
        if is_sym(v):
            return Sym('u' + op, (v,), qtype(n))
        if op == '-':
            return -v if isinstance(v, float) else astdb.wrap_int(-v, qtype(n))
        if op == '+':
            return v
        if op == '~':
            return astdb.wrap_int(~v, qtype(n))
        if op == '__extension__':
            return v
        raise PEError('unsupported unary %s at %s' % (op, astdb.loc_str(n)))

    def e_BinaryOperator(self, n):
        op = n['opcode']
        l, r = kids(n)
        if op == '=':
            v = self.eval(r)
            lv = self.lvalue(l)
            if lv[0] == 'sym':
                self.event('store-sym', (lv[1], _hashable(v)), n)
                return v
            v = self.copy_val(v)
            bl = getattr(self, 'byte_lists', None)
            if bl and isinstance(lv[0], list) and id(lv[0]) in bl and isinstance(lv[1], int) and isinstance(v, int):
                ti_ = astdb.int_type_info(self.tu_desugar(_clean(qtype(l))).replace('const ', '').replace('volatile ', '').strip())
                if ti_ is not None and ti_[0] > 8:
                    for i_, b_ in enumerate((v & ((1 << ti_[0]) - 1)).to_bytes(ti_[0] // 8, bl[id(lv[0])])):
                        self.store(lv[0], lv[1] + i_, b_, n)
                    return v
            self.store(lv[0], lv[1], v, n)
            return v
        if op == ',':
            self.eval(l)
            return self.eval(r)
        if op == '&&':
            a = self.eval(l)
            if not self.decide(a, l):
                return 0
            b = self.eval(r)
            if is_sym(b):
                return Sym('!=', (b, 0))
            return int(self.decide(b, r))
        if op == '||':
            a = self.eval(l)
            if self.decide(a, l):
                return 1
            b = self.eval(r)
            if is_sym(b):
                return Sym('!=', (b, 0))
            return int(self.decide(b, r))
        a = self.eval(l)
        b = self.eval(r)
        return self.binop(op, a, b, n)

    def binop(self, op, a, b, n):
        qt = qtype(n)
        if isinstance(a, Ptr) or isinstance(b, Ptr):
            # a C string and a pointer into it
            if isinstance(a, str) and isinstance(b, Ptr) and b.c is a:
                a = Ptr(a, 0)
            if isinstance(b, str) and isinstance(a, Ptr) and a.c is b:
                b = Ptr(b, 0)
            if op == '+':
                p, i = (a, b) if isinstance(a, Ptr) else (b, a)
                if is_sym(i):
                    return Sym('+', (_hashable(p), i))
                return Ptr(p.c, p.k + i)
            if op == '-':
                if isinstance(a, Ptr) and isinstance(b, Ptr):
                    if a.c is b.c:
                        return a.k - b.k
                    return Sym('-', (_hashable(a), _hashable(b)))
                if is_sym(b):
                    return Sym('-', (_hashable(a), b))
                return Ptr(a.c, a.k - b)
            if op in ('==', '!='):
                same = isinstance(a, Ptr) and isinstance(b, Ptr) and a == b
                if is_sym(a) or is_sym(b):
                    return Sym(op, (_hashable(a), _hashable(b)))
                return int(same if op == '==' else not same)
            if op in ('<', '>', '<=', '>=') and isinstance(a, Ptr) and isinstance(b, Ptr) and a.c is b.c:
                return int(eval('a.k %s b.k' % op))
            raise PEError('unsupported pointer op %s at %s' % (op, astdb.loc_str(n)))
        if isinstance(a, str) or isinstance(b, str):
            if op in ('==', '!='):
                if is_sym(a) or is_sym(b):
                    return Sym(op, (a, b))
                eq = (a == b) if isinstance(a, str) and isinstance(b, str) else False
                return int(eq if op == '==' else not eq)
            if op == '+' and isinstance(a, str) and isinstance(b, int):
                return a[b:]
            if op == '-' and isinstance(a, str) and isinstance(b, str):
                # difference of two pointers into the same string (suffixes)
                if a.endswith(b) or b.endswith(a):
                    return len(b) - len(a)
            return Sym(op, (_hashable(a), _hashable(b)), qt)
        if isinstance(a, FuncRef) or isinstance(b, FuncRef) or isinstance(a, Text) or isinstance(b, Text):
            if op in ('==', '!='):
                eq = a == b
                return int(eq if op == '==' else not eq)
        if is_sym(a) or is_sym(b) or isinstance(a, (dict, list)) or isinstance(b, (dict, list)):
            return Sym(op, (_hashable(a), _hashable(b)), qt)
        if a is None or b is None:
            raise PEError('void value in binary op at %s' % astdb.loc_str(n))
        isf = isinstance(a, float) or isinstance(b, float)
        if op == '+': r = a + b
        elif op == '-': r = a - b
        elif op == '*': r = a * b
        elif op == '/':
            if b == 0:
                return Sym('div0', (a, b))
            r = a / b if isf else int(a / b) if abs(a) < 2 ** 52 else _cdiv(a, b)
        elif op == '%':
            if b == 0:
                return Sym('div0', (a, b))
            r = a - b * _cdiv(a, b)
        elif op == '<<': r = a << b
        elif op == '>>': r = a >> b
        elif op == '&': r = a & b
        elif op == '|': r = a | b
        elif op == '^': r = a ^ b
        elif op == '==': return int(a == b)
        elif op == '!=': return int(a != b)
        elif op == '<': return int(a < b)
        elif op == '>': return int(a > b)
        elif op == '<=': return int(a <= b)
        elif op == '>=': return int(a >= b)
        else:
            raise PEError('unsupported binary %s at %s' % (op, astdb.loc_str(n)))
        if isf:
            return r
        return astdb.wrap_int(r, qt)

    def e_CompoundAssignOperator(self, n):
        op = n['opcode'][:-1]
        l, r = kids(n)
        lv = self.lvalue(l)
        b = self.eval(r)
        if lv[0] == 'sym':
            self.event('store-sym', (lv[1], _hashable(b)), n)
            return lv[1]
        a = self.load(lv[0], lv[1], n)
        # computation in the computeResultType, then converted to the lhs type
        fake = {'type': n.get('computeResultType') or n.get('type')}
        v = self.binop(op, a, b, dict(n, type=fake['type']))
        if isinstance(v, int) and not isinstance(v, bool):
            v = astdb.wrap_int(v, qtype(n))
        self.store(lv[0], lv[1], v, n)
        return v

    def e_ConditionalOperator(self, n):
        c, a, b = kids(n)
        if self.decide(self.eval(c), c):
            return self.eval(a)
        return self.eval(b)

    def e_CallExpr(self, n):
        ks = kids(n)
        callee = ks[0]
        cn = astdb.callee_name(n)
        if cn is not None:
            c0 = astdb.strip(callee)
            if (c0.get('referencedDecl') or {}).get('kind') != 'FunctionDecl':
                cn = None      # call through a function-pointer variable / parameter
        args = [self.eval(a) for a in ks[1:]]
        if cn is None:
            f = self.eval(callee)
            if isinstance(f, FuncRef):
                cn = f.name
            else:
                self.event('indirect-call', (_hashable(f),) + tuple(_hashable(a) for a in args), n)
                return Sym('call', ('?indirect',))
        return self.call(cn, args, n)

    def e_StmtExpr(self, n):
        body = kids(n)[0]
        last = None
        for s in body.get('inner', []):
            if s.get('kind') in ('DeclStmt', 'IfStmt', 'ForStmt', 'WhileStmt', 'CompoundStmt', 'NullStmt',
                                 'ReturnStmt', 'SwitchStmt', 'DoStmt'):
                self.exec_stmt(s)
                last = None
            else:
                last = self.eval(s)
        return last

    def e_AtomicExpr(self, n):
        name = astdb.atomic_name(n) or '__atomic_?'
        args = [self.eval(a) for a in kids(n)]
        h = self.leafs.get('@atomic')
        if h is not None:
            return h(self, name, args, n)
        self.event('atomic:' + name, tuple(_hashable(a) for a in args), n)
        return Sym('call', (name,) + tuple(_hashable(a) for a in args), qtype(n))

    def e_VAArgExpr(self, n):
        return unk('va_arg')

    def e_OffsetOfExpr(self, n):
        return Sym('offsetof', ())


def _cdiv(a, b):
    q = abs(a) // abs(b)
    return q if (a >= 0) == (b >= 0) else -q


def _hashable(v):
    if isinstance(v, (dict, list)):
        return ('obj', id(v))
    return v


def _array_len(qt):
    qt = qt.strip()
    if qt.endswith(']'):
        i = qt.find('[')
        inner = qt[i + 1:qt.find(']', i)]
        try:
            return int(inner)
        except ValueError:
            return None
    return None


def _array_elem(qt):
    i = qt.find('[')
    j = qt.find(']', i)
    return (qt[:i] + qt[j + 1:]).strip()


# --------------------------------------------------------------------------------------
# common leaf models

def leaf_const(value):
    def f(interp, args, node):
        return value
    return f


def leaf_event(name, ret=None):
    def f(interp, args, node):
        interp.event(name, tuple(_hashable(a) for a in args), node)
        return ret
    return f


def leaf_abort(name):
    def f(interp, args, node):
        interp.event(name, tuple(_hashable(a) for a in args), node)
        raise PathAbort(name)
    return f


def depth_ok(qt):
    return len(qt) < 400


def format_printf(fmt, args):
    """expand a printf format into a list of parts (str | ('fmt', spec, value))"""
    parts = []
    i = 0
    ai = 0
    buf = ''
    while i < len(fmt):
        c = fmt[i]
        if c != '%':
            buf += c
            i += 1
            continue
        j = i + 1
        while j < len(fmt) and fmt[j] in '-+ #0123456789.*lhzjtLq':
            j += 1
        if j >= len(fmt):
            buf += fmt[i:]
            break
        conv = fmt[j]
        spec = fmt[i:j + 1]
        if conv == '%':
            buf += '%'
        else:
            if '.*' in spec and ai < len(args) and isinstance(args[ai], int):
                # precision passed as an argument
                spec = spec.replace('.*', '.%d' % args[ai], 1)
                ai += 1
            v = args[ai] if ai < len(args) else unk('missing-arg')
            ai += 1
            if conv == 's' and isinstance(v, str) and spec == '%s':
                buf += v
            elif conv == 'c' and isinstance(v, int) and spec == '%c':
                buf += chr(v & 0xff)
            elif conv in 'gGeEfF' and isinstance(v, (float, int)) and not isinstance(v, bool) and '*' not in spec:
                import re as _re
                m_ = _re.fullmatch(r'%([-0 +#]*)(\d*)(?:\.(\d+))?[lL]?([gGeEfF])', spec)
                x_ = float(v)
                if m_ and x_ == x_ and abs(x_) != float('inf'):
                    fl, wd, pr, cv = m_.groups()
                    buf += ('%' + fl + wd + ('.' + pr if pr is not None else '') + cv) % x_      # correctly rounded, as the host printf
                else:
                    if buf:
                        parts.append(buf)
                        buf = ''
                    parts.append(('fmt', spec, v))
            elif conv in 'duixXo' and isinstance(v, int) and not isinstance(v, bool):
                import re as _re
                m_ = _re.fullmatch(r'%([-0 +#]*)(\d*)(?:hh|h|ll|l|q|j|z|t)?([duixXo])', spec)
                if m_:
                    fl, wd, cv = m_.groups()
                    wide = any(m__ in spec for m__ in ('l', 'q', 'j', 'z', 't'))
                    if cv in 'uxXo':
                        # the argument is fetched as unsigned int unless a length modifier says otherwise (LP64)
                        v = v & (0xffffffffffffffff if wide else 0xffffffff)
                    else:
                        bits_ = 64 if wide else 32
                        v &= (1 << bits_) - 1
                        if v >> (bits_ - 1):
                            v -= 1 << bits_
                    buf += ('%' + fl + wd + ('d' if cv in 'dui' else cv)) % v
                else:
                    if buf:
                        parts.append(buf)
                        buf = ''
                    parts.append(('fmt', spec, v))
            else:
                if buf:
                    parts.append(buf)
                    buf = ''
                parts.append(('fmt', spec, v))
        i = j + 1
    if buf:
        parts.append(buf)
    return parts


# --------------------------------------------------------------------------------------
# evaluation / inspection of symbolic expressions

def _c_char_fn(pred):
    return lambda c: int(bool(pred(c))) if 0 <= c <= 255 else 0


_C_LOCALE_FUNCS = {
    'tolower': lambda c: c + 32 if 65 <= c <= 90 else c,
    'toupper': lambda c: c - 32 if 97 <= c <= 122 else c,
    'isdigit': _c_char_fn(lambda c: 48 <= c <= 57),
    'isupper': _c_char_fn(lambda c: 65 <= c <= 90),
    'islower': _c_char_fn(lambda c: 97 <= c <= 122),
    'isalpha': _c_char_fn(lambda c: 65 <= c <= 90 or 97 <= c <= 122),
    'isalnum': _c_char_fn(lambda c: 48 <= c <= 57 or 65 <= c <= 90 or 97 <= c <= 122),
    'isxdigit': _c_char_fn(lambda c: 48 <= c <= 57 or 65 <= c <= 70 or 97 <= c <= 102),
    'isspace': _c_char_fn(lambda c: c in (9, 10, 11, 12, 13, 32)),
}


def sym_eval(v, env):
    """evaluate a Sym tree under env: dict mapping Sym (sub-expression) -> python int.
    Returns int or raises KeyError for an unbound unknown."""
    if not is_sym(v):
        return v
    if v in env:
        return env[v]
    op = v.op
    if op == 'cast':
        x = sym_eval(v.args[0], env)
        if isinstance(x, float):
            x = int(x)
        return astdb.wrap_int(x, v.ctype)
    if op == 'call' and v.args and v.args[0] in _C_LOCALE_FUNCS and len(v.args) >= 2:
        # a pure <ctype.h> function of the C locale applied to an otherwise evaluable argument
        return _C_LOCALE_FUNCS[v.args[0]](sym_eval(v.args[-1], env))
    if op in ('unk', 'member', 'index', 'call', 'deref', 'addr'):
        raise KeyError(v)
    a = [sym_eval(x, env) for x in v.args]
    if op == '!':
        return int(not a[0])
    if op == 'u-':
        return astdb.wrap_int(-a[0], v.ctype)
    if op == 'u~':
        return astdb.wrap_int(~a[0], v.ctype)
    if op == 'u+':
        return a[0]
    x, y = a
    if op == '==': return int(x == y)
    if op == '!=': return int(x != y)
    if op == '<': return int(x < y)
    if op == '>': return int(x > y)
    if op == '<=': return int(x <= y)
    if op == '>=': return int(x >= y)
    if op == '&': r = x & y
    elif op == '|': r = x | y
    elif op == '^': r = x ^ y
    elif op == '+': r = x + y
    elif op == '-': r = x - y
    elif op == '*': r = x * y
    elif op == '<<': r = x << y
    elif op == '>>': r = x >> y
    elif op == '/': r = _cdiv(x, y)
    elif op == '%': r = x - y * _cdiv(x, y)
    else:
        raise KeyError(v)
    return astdb.wrap_int(r, v.ctype) if v.ctype else r


def sym_walk(v):
    if is_sym(v):
        yield v
        for a in v.args:
            for x in sym_walk(a):
                yield x
    elif isinstance(v, tuple):
        for a in v:
            for x in sym_walk(a):
                yield x


def strip_casts(v):
    while is_sym(v) and v.op == 'cast':
        v = v.args[0]
    return v


_CMP = ('==', '!=', '<', '>', '<=', '>=', '!')


def _boolish(x):
    """x is 0/1 valued: a comparison, a logical not, or a cast / (!= 0) wrapper around one"""
    if not is_sym(x):
        return False
    if x.op in _CMP:
        return True
    if x.op == 'cast':
        return _boolish(x.args[0])
    return False


def norm_cond(c):
    """strip truth-preserving wrappers: casts of 0/1 values and (x != 0) of 0/1 values"""
    while is_sym(c):
        if c.op == 'cast' and _boolish(c.args[0]):
            c = c.args[0]
        elif c.op == '!=' and len(c.args) == 2 and c.args[1] == 0 and _boolish(c.args[0]):
            c = c.args[0]
        else:
            break
    return c


# --------------------------------------------------------------------------------------
# spelling-independent view of path decisions

_REL_NEG = {'==': '!=', '!=': '==', '<': '>=', '>=': '<', '>': '<=', '<=': '>'}
_REL_SWAP = {'==': '==', '!=': '!=', '<': '>', '>': '<', '<=': '>=', '>=': '<='}


def relation(cond, taken):
    """(op, a, b) with casts stripped such that `a op b` holds when `cond` evaluated to `taken`; a bare value tested for truth is
    `value != 0`; logical negations are folded.  None for conjunctions/disjunctions and other shapes."""
    c = norm_cond(cond)
    while is_sym(c) and c.op == '!':
        taken = not taken
        c = norm_cond(c.args[0])
    if is_sym(c) and len(c.args) == 2 and c.op in _REL_NEG:
        op, a, b = c.op, strip_casts(c.args[0]), strip_casts(c.args[1])
    elif is_sym(c) and c.op not in ('&&', '||'):
        op, a, b = '!=', strip_casts(c), 0
    else:
        return None
    if not taken:
        op = _REL_NEG[op]
    return (op, a, b)


def relations(path):
    return [r for r in (relation(c, t) for c, t, _ in path.decisions) if r is not None]


def has_relation(rels, op, pa, pb):
    """some established relation is `x op y` with pa(x) and pb(y) - or its mirror image `y op' x`"""
    for rop, a, b in rels:
        if rop == op and pa(a) and pb(b):
            return True
        if _REL_SWAP[rop] == op and pa(b) and pb(a):
            return True
    return False
