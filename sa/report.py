"""Obligation bookkeeping, evidence files, known findings, exit-code contract."""
import json
import os
import sys
import time

from . import astdb

VERIF = astdb.VERIF
EVIDENCE_DIR = os.environ.get('VERIF_EVIDENCE_DIR') or os.path.join(VERIF, 'evidence')
VIOL_DIR = os.path.join(EVIDENCE_DIR, 'violations')
KNOWN = os.path.join(VERIF, 'known_findings.json')


def load_known():
    if not os.path.exists(KNOWN):
        return []
    with open(KNOWN) as f:
        return json.load(f).get('findings', [])


class Check:
    """One run of the checker for one property."""

    def __init__(self, pid, tier='quick', seed=0):
        self.pid = pid
        self.tier = tier
        self.seed = seed
        self.t0 = time.time()
        self.obligations = []     # dicts: rule, instance, ok, detail, loc, site
        self.notes = []
        self.samples = []
        self.units = []
        self.functions = set()
        self.floors = {}          # rule -> minimum number of instances
        self.assumptions = []
        self.explanation = ''
        self.extra = {}
        self.exhaustive = False

    # -- obligations -------------------------------------------------------------------
    def ok(self, rule, instance, detail=''):
        self.obligations.append(dict(rule=rule, instance=instance, ok=True, detail=detail))

    def undecide(self, text):
        """record a construct that is outside the rules' model and was not refuted: the check ends with exit 2 unless a definite
        violation is found"""
        if not hasattr(self, 'undecided'):
            self.undecided = []
        if text not in self.undecided:
            self.undecided.append(text)

    def fail(self, rule, instance, detail, site, loc=None, **kw):
        """site: stable identifier of the offending construct (function/macro/field names, no
        line numbers) used to match known findings."""
        d = dict(rule=rule, instance=instance, ok=False, detail=detail, site=site, loc=loc)
        d.update(kw)
        self.obligations.append(d)

    def expect(self, cond, rule, instance, detail_fail, site, loc=None, detail_ok='', **kw):
        if cond:
            self.ok(rule, instance, detail_ok)
        else:
            self.fail(rule, instance, detail_fail, site, loc, **kw)
        return cond

    def note(self, text):
        self.notes.append(text)

    def sample(self, s):
        if len(self.samples) < 60:
            self.samples.append(s)

    def floor(self, rule, n):
        self.floors[rule] = n

    def unit(self, tu):
        self.units.append('%s [%s]' % (tu.path, ' '.join(tu.flags)))

    def fn(self, *names):
        self.functions.update(names)

    def require(self, cond, msg):
        if not cond:
            raise astdb.AnalysisBroken(msg)

    def unlisted_violations(self):
        known = [k for k in load_known() if k.get('property') == self.pid and k.get('status', 'known') == 'known']
        return [o for o in self.obligations if not o['ok'] and
                not any(k.get('rule') == o['rule'] and k.get('site') == o['site'] for k in known)]

    # -- finish ------------------------------------------------------------------------
    def finish(self):
        counts = {}
        for o in self.obligations:
            counts[o['rule']] = counts.get(o['rule'], 0) + 1
        # floors guard *passing* verdicts against vacuity; a definite violation is reported even if some other
        # rule instance went missing (checked below, after the violations are known)
        floor_errors = ['rule %s matched %d instances, floor is %d (anchor drifted?)' % (rule, counts.get(rule, 0), n)
                        for rule, n in self.floors.items() if counts.get(rule, 0) < n]
        known = [k for k in load_known() if k.get('property') == self.pid]
        viols = [o for o in self.obligations if not o['ok']]
        unlisted = []
        listed = []
        for v in viols:
            m = None
            for k in known:
                if k.get('status', 'known') != 'known':
                    continue   # "fixed" entries suppress nothing
                if k.get('rule') == v['rule'] and k.get('site') == v['site']:
                    m = k
                    break
            if m is not None:
                listed.append((v, m))
            else:
                unlisted.append(v)
        if floor_errors and not unlisted:
            raise astdb.AnalysisBroken('; '.join(floor_errors))
        # constructs the rules could neither accept nor refute (recorded with undecide()): without a definite violation the analysis
        # decides nothing
        if getattr(self, 'undecided', None) and not unlisted:
            raise astdb.AnalysisBroken('not decided: ' + ' | '.join(self.undecided[:4]))
        os.makedirs(VIOL_DIR, exist_ok=True)
        for f in os.listdir(VIOL_DIR):
            if f.startswith(self.pid + '-'):
                os.unlink(os.path.join(VIOL_DIR, f))
        seen_known = set()
        for v, k in listed:
            key = (k.get('rule'), k.get('site'))
            if key in seen_known:
                continue
            seen_known.add(key)
            print('KNOWN-FINDING: property=%s %s [%s at %s] %s' % (
                self.pid, k.get('id', ''), v['rule'], v['site'], k.get('what', v['detail'])))
        for i, v in enumerate(unlisted):
            path = os.path.join(VIOL_DIR, '%s-%d.json' % (self.pid, i))
            with open(path, 'w') as f:
                json.dump(dict(property=self.pid, **v), f, indent=1, default=str)
            print('  %s %s: %s' % (v['rule'], v.get('loc') or v['site'], v['detail']))
            print('VIOLATION property=%s replay=%s' % (self.pid, path))
        self._write_evidence(counts, len(unlisted), len(listed))
        n_ok = sum(1 for o in self.obligations if o['ok'])
        print('%s [%s]: %d obligations, %d discharged, %d known findings, %d violations (%.1fs)' % (
            self.pid, self.tier, len(self.obligations), n_ok, len(listed), len(unlisted),
            time.time() - self.t0))
        return 1 if unlisted else 0

    def _write_evidence(self, counts, n_viol, n_known):
        os.makedirs(EVIDENCE_DIR, exist_ok=True)
        n = len(self.obligations)
        n_ok = sum(1 for o in self.obligations if o['ok'])
        distinct = len({(o['rule'], str(o['instance'])) for o in self.obligations})
        samples = list(self.samples)
        if not samples:
            samples = [dict(rule=o['rule'], instance=str(o['instance']), ok=o['ok'],
                            detail=str(o.get('detail', ''))[:300]) for o in self.obligations[:25]]
        cov = dict(
            explanation=self.explanation,
            obligations=n,
            discharged=n_ok,
            known_findings_matched=n_known,
            evaluations=max(n, 1),
            distinct_nontrivial=max(distinct, 0),
            rule='one obligation per (rule, instance) extracted from the current /repo AST; '
                 'distinct = distinct (rule, instance) pairs',
            rule_instances=counts,
            floors=self.floors,
            units_parsed=self.units,
            functions_analysed=sorted(self.functions),
            flag_route=astdb.FLAG_ROUTE,
            samples=samples,
            notes=self.notes,
            exhaustive=self.exhaustive,
        )
        cov.update(self.extra)
        ev = dict(
            property_id=self.pid,
            tier=self.tier,
            seed=self.seed,
            level='other',
            coverage=cov,
            assumptions=self.assumptions,
            wall_s=round(time.time() - self.t0, 3),
            violations=n_viol,
        )
        tmp = os.path.join(EVIDENCE_DIR, self.pid + '.json.tmp')
        with open(tmp, 'w') as f:
            json.dump(ev, f, indent=1, default=str)
        os.replace(tmp, os.path.join(EVIDENCE_DIR, self.pid + '.json'))
