#!/usr/bin/env python3
"""Tiny WebAssembly binary builder used only for *replaying* findings against the real translator
(triage of reports; never part of a check's verdict)."""
import struct


def uleb(n):
    out = bytearray()
    while True:
        b = n & 0x7f
        n >>= 7
        if n:
            out.append(b | 0x80)
        else:
            out.append(b)
            return bytes(out)


def sleb(n):
    out = bytearray()
    while True:
        b = n & 0x7f
        n >>= 7
        if (n == 0 and not b & 0x40) or (n == -1 and b & 0x40):
            out.append(b)
            return bytes(out)
        out.append(b | 0x80)


def vec(items):
    return uleb(len(items)) + b''.join(items)


def name(s):
    b = s.encode() if isinstance(s, str) else s
    return uleb(len(b)) + b


def section(sid, payload):
    return bytes([sid]) + uleb(len(payload)) + payload


I32, I64, F32, F64 = 0x7f, 0x7e, 0x7d, 0x7c


def functype(params, results):
    return b'\x60' + vec([bytes([p]) for p in params]) + vec([bytes([r]) for r in results])


def module(types=(), imports=(), funcs=(), tables=(), mems=(), globals_=(), exports=(), start=None,
           elems=(), codes=(), datas=(), customs=()):
    out = b'\0asm' + struct.pack('<I', 1)
    if types:
        out += section(1, vec(list(types)))
    if imports:
        out += section(2, vec(list(imports)))
    if funcs:
        out += section(3, vec([uleb(f) for f in funcs]))
    if tables:
        out += section(4, vec(list(tables)))
    if mems:
        out += section(5, vec(list(mems)))
    if globals_:
        out += section(6, vec(list(globals_)))
    if exports:
        out += section(7, vec(list(exports)))
    if start is not None:
        out += section(8, uleb(start))
    if elems:
        out += section(9, vec(list(elems)))
    if codes:
        out += section(10, vec(list(codes)))
    if datas:
        out += section(11, vec(list(datas)))
    for n, payload in customs:
        out += section(0, name(n) + payload)
    return out


def code(locals_, body):
    b = vec([uleb(n) + bytes([t]) for n, t in locals_]) + body + b'\x0b'
    return uleb(len(b)) + b


def export(n, kind, idx):
    return name(n) + bytes([kind]) + uleb(idx)


def limits(mn, mx=None, shared=False):
    if mx is None:
        return b'\x00' + uleb(mn)
    return (b'\x03' if shared else b'\x01') + uleb(mn) + uleb(mx)


def import_func(mod, nm, typeidx):
    return name(mod) + name(nm) + b'\x00' + uleb(typeidx)


def import_mem(mod, nm, lim):
    return name(mod) + name(nm) + b'\x02' + lim
