#include "wasi_harness.h"
#include <sys/stat.h>
#include <unistd.h>
U32 wasi_snapshot_preview1__fd_readdir(void*, U32, U32, U32, U64, U32);
int main(void) {
    char* envp[] = {NULL}; char* argv[] = {"x"}; U32 fd = 0, used1, used2; char dir[] = "/tmp/w2c2-replay-XXXXXX";
    harnessInit();
    if (!mkdtemp(dir)) return 2;
    { char p[256]; FILE* f; sprintf(p, "%s/a", dir); f = fopen(p, "w"); fclose(f); }
    if (!wasiInit(1, argv, envp)) return 2;
    if (!wasiFileDescriptorAdd(-1, dir, &fd)) return 2;
    wasi_snapshot_preview1__fd_readdir(NULL, fd, 1024, 4096, 0, 16); memcpy(&used1, gmem.data + 16, 4);
    wasi_snapshot_preview1__fd_readdir(NULL, fd, 1024, 4096, 0, 16); memcpy(&used2, gmem.data + 16, 4);
    printf("first listing used=%u, second listing (cookie 0 again) used=%u\n", used1, used2);
    { char p[256]; sprintf(p, "%s/a", dir); unlink(p); rmdir(dir); }
    return used1 == used2 && used1 > 0 ? 0 : 1;
}
