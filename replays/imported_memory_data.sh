#!/bin/sh
# replay (triage only): an active data segment must be copied into an IMPORTED memory at instantiation. usage: <script> <w2c2 tree>
T=${1:-/repo}; S=$(mktemp -d /tmp/w2c2-replay.XXXXXX); trap 'rm -rf "$S"' EXIT
cmake -G Ninja -S "$T" -B "$S/b" >/dev/null 2>&1 && cmake --build "$S/b" --target w2c2 >/dev/null 2>&1 || exit 2
cd "$S"
python3 - <<'PY'
import sys; sys.path.insert(0,'/verif/replays')
from mkwasm import *
data = b'\x00' + b'\x41\x10\x0b' + name(b'HELLO')          # active segment, memory 0, offset i32.const 16
m=module(types=[functype([],[I32])], imports=[import_mem('env','memory',limits(1))], funcs=[0],
   exports=[export('peek',0,0)], codes=[code([], b'\x41\x10\x2d\x00\x00')], datas=[data])
open('t.wasm','wb').write(m)
PY
"$S/b/w2c2/w2c2" t.wasm t.c || exit 2
cat > main.c <<'C'
#include <stdio.h>
#include <string.h>
#include "t.h"
void trap(Trap t){printf("trap %d\n",t);abort();}
U32 wasmMemoryAtomicWait(wasmMemory*m,U32 a,U64 e,I64 t,bool w){return 0;}
U32 wasmMemoryAtomicNotify(wasmMemory*m,U32 a,U32 c){return 0;}
static wasmMemory* mem;
static void* resolve(const char* mod, const char* name){ if(!strcmp(mod,"env")&&!strcmp(name,"memory")) return mem; return NULL; }
int main(){tInstance i; U32 v; mem = wasmMemoryAllocate(1,1,false); tInstantiate(&i,resolve); v=t_peek(&i);
 printf("byte at 16 after instantiation: 0x%02x (want 0x48 'H')\n", v); return v==0x48?0:1;}
C
cc -w -I"$T/w2c2" -o t main.c t.c -lm && ./t
