#include "wasi_harness.h"
#include <sys/stat.h>
#include <unistd.h>
#include <errno.h>
/* path_remove_directory of a non-empty directory: POSIX rmdir fails with ENOTEMPTY, whose WASI number is NOTEMPTY (55).
   A symlink loop gives ELOOP (WASI LOOP, 32) from path_filestat_get with the follow flag. */
U32 wasi_snapshot_preview1__path_remove_directory(void*, U32, U32, U32);
U32 wasi_snapshot_preview1__path_filestat_get(void*, U32, U32, U32, U32, U32);
int main(void) {
    char* envp[] = {NULL}; char* argv[] = {"x"}; U32 fd = 0, r1, r2; char dir[] = "/tmp/w2c2-replay-XXXXXX"; char p[300], q[300];
    harnessInit();
    if (!mkdtemp(dir)) return 2;
    sprintf(p, "%s/d", dir); mkdir(p, 0755); sprintf(q, "%s/d/f", dir); { FILE* f = fopen(q, "w"); fclose(f); }
    sprintf(p, "%s/l1", dir); sprintf(q, "%s/l2", dir); symlink(q, p); symlink(p, q);
    if (!wasiInit(1, argv, envp)) return 2;
    if (!wasiFileDescriptorAdd(-1, dir, &fd)) return 2;
    memcpy(gmem.data + 100, "d", 1); memcpy(gmem.data + 200, "l1", 2);
    r1 = wasi_snapshot_preview1__path_remove_directory(NULL, fd, 100, 1);
    r2 = wasi_snapshot_preview1__path_filestat_get(NULL, fd, 1 /* symlink_follow */, 200, 2, 1024);
    printf("path_remove_directory(non-empty) = %u (POSIX ENOTEMPTY -> WASI NOTEMPTY 55); path_filestat_get(symlink loop) = %u (ELOOP -> WASI LOOP 32)\n", r1, r2);
    sprintf(q, "%s/d/f", dir); unlink(q); sprintf(p, "%s/d", dir); rmdir(p); sprintf(p, "%s/l1", dir); unlink(p); sprintf(p, "%s/l2", dir); unlink(p); rmdir(dir);
    return r1 == 55 && r2 == 32 ? 0 : 1;
}
