#!/bin/sh
# replay (triage only): memory.grow whose beyond a declared maximum of 0 must fail.  usage: grow_wrap_to_zero.sh <w2c2 tree>
T=${1:-/repo}; S=$(mktemp -d /tmp/w2c2-replay.XXXXXX); trap 'rm -rf "$S"' EXIT
cmake -G Ninja -S "$T" -B "$S/b" >/dev/null 2>&1 && cmake --build "$S/b" --target w2c2 >/dev/null 2>&1 || exit 2
cd "$S"
python3 - <<'PY'
import sys; sys.path.insert(0,'/verif/replays')
from mkwasm import *
m=module(types=[functype([],[I32]), functype([I32],[I32])], funcs=[0,1], mems=[limits(0,0)],
   exports=[export('size',0,0),export('grow',0,1)], codes=[code([], b'\x3f\x00'), code([], b'\x20\x00\x40\x00')])
open('t.wasm','wb').write(m)
PY
"$S/b/w2c2/w2c2" t.wasm t.c || exit 2
cat > main.c <<'C'
#include <stdio.h>
#include "t.h"
void trap(Trap t){printf("trap %d\n",t);abort();}
U32 wasmMemoryAtomicWait(wasmMemory*m,U32 a,U64 e,I64 t,bool w){return 0;}
U32 wasmMemoryAtomicNotify(wasmMemory*m,U32 a,U32 c){return 0;}
int main(){tInstance i; U32 r, s; tInstantiate(&i,NULL); r=t_grow(&i,1u); s=t_size(&i);
 printf("(memory 0 0): grow(1) -> 0x%08x (want 0xffffffff), size after = %u\n", r, s); return (r==0xFFFFFFFFu && s==0)?0:1;}
C
cc -w -I"$T/w2c2" -o t main.c t.c -lm && ./t
