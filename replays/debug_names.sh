#!/bin/sh
# replay (triage only): -g with a name section that names only some functions, and -g with several worker threads,
# must translate without a crash. usage: <script> <w2c2 tree>
T=${1:-/repo}; S=$(mktemp -d /tmp/w2c2-replay.XXXXXX); trap 'rm -rf "$S"' EXIT
cd "$S"
python3 - <<'PY'
import sys; sys.path.insert(0,'/verif/replays')
from mkwasm import *
def names(entries):
    sub = vec([uleb(i)+name(n) for i,n in entries])
    return bytes([1]) + uleb(len(sub)) + sub
body = [code([], b'\x41\x2a'), code([], b'\x41\x2b'), code([], b'\x41\x2c')]
m=module(types=[functype([],[I32])], funcs=[0,0,0], exports=[export('run',0,0)], codes=body, customs=[('name', names([(1,'only_this_one')]))])
open('partial.wasm','wb').write(m)
m=module(types=[functype([],[I32])], funcs=[0,0,0], exports=[export('run',0,0)], codes=body, customs=[('name', names([(0,'a'),(1,'b'),(2,'c')]))])
open('full.wasm','wb').write(m)
PY
clang -g -fsanitize=address,undefined -fno-sanitize-recover=all -DHAS_GETOPT=1 -DHAS_GLOB=1 -DHAS_LIBGEN=1 -DHAS_PTHREAD=1 -DHAS_STRDUP=1 -DHAS_UNISTD=1 -std=gnu90 -w \
  $(ls "$T"/w2c2/*.c | grep -v "_test.c\|/test.c") -o w2c2san -lm -lpthread || exit 2
export ASAN_OPTIONS=detect_leaks=0
rc=0
./w2c2san -g partial.wasm p.c 2>&1 | grep -E "ERROR|runtime error|SUMMARY" | head -3
./w2c2san -g partial.wasm p.c >/dev/null 2>&1 || { echo "FAIL: -g with partial name section: exit $?"; rc=1; }
./w2c2san -g -f 1 -t 2 full.wasm q.c 2>&1 | grep -E "ERROR|runtime error|SUMMARY" | head -3
./w2c2san -g -f 1 -t 2 full.wasm q.c >/dev/null 2>&1 || { echo "FAIL: -g -f 1 -t 2: exit $?"; rc=1; }
exit $rc
