#include "wasi_harness.h"
U32 wasi_snapshot_preview1__random_get(void*, U32, U32);
int main(void) {
    U32 r1, r2, i, nz = 0;
    harnessInit();
    r1 = wasi_snapshot_preview1__random_get(NULL, 1024, 256);
    r2 = wasi_snapshot_preview1__random_get(NULL, 4096, 1000);
    for (i = 0; i < 1000; i++) nz += gmem.data[4096 + i] != 0;
    printf("random_get(256) -> %u, random_get(1000) -> %u, non-zero bytes of 1000: %u\n", r1, r2, nz);
    return (r1 == 0 && r2 == 0 && nz > 900) ? 0 : 1;
}
