/* Replay harness (triage only, never part of a check): links the real wasi/wasi.c with a flat guest memory. */
#include <stdio.h>
#include <stdlib.h>
#include <string.h>
#include "../../repo/wasi/wasi.h"
static wasmMemory gmem;
wasmMemory* wasiMemory(void* instance) { (void)instance; return &gmem; }
void trap(Trap t) { fprintf(stderr, "trap %d\n", t); abort(); }
U32 wasmMemoryAtomicWait(wasmMemory* m, U32 a, U64 e, I64 t, bool w) { return 0; }
U32 wasmMemoryAtomicNotify(wasmMemory* m, U32 a, U32 c) { return 0; }
static void harnessInit(void) { gmem.data = calloc(1 << 20, 1); gmem.size = 1 << 20; gmem.pages = 16; gmem.maxPages = 16; }
