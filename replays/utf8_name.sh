#!/bin/sh
# replay (triage only): a valid module with a non-ASCII (UTF-8) import name used in a function body must translate
# without a memory error. usage: <script> <w2c2 tree>
T=${1:-/repo}; S=$(mktemp -d /tmp/w2c2-replay.XXXXXX); trap 'rm -rf "$S"' EXIT
cd "$S"
python3 - <<'PY'
import sys; sys.path.insert(0,'/verif/replays')
from mkwasm import *
m=module(types=[functype([],[I32])], imports=[import_func('env','café',0)], funcs=[0],
   exports=[export('run',0,1)], codes=[code([], b'\x10\x00')])
open('t.wasm','wb').write(m)
PY
clang -g -fsanitize=address,undefined -fno-sanitize-recover=all -DHAS_GETOPT=1 -DHAS_GLOB=1 -DHAS_LIBGEN=1 -DHAS_PTHREAD=1 -DHAS_STRDUP=1 -DHAS_UNISTD=1 -std=gnu90 -w \
  $(ls "$T"/w2c2/*.c | grep -v "_test.c\|/test.c") -o w2c2san -lm -lpthread || exit 2
export ASAN_OPTIONS=detect_leaks=0
./w2c2san t.wasm t.c 2>&1 | grep -E "ERROR|runtime error|SUMMARY" | head -5
./w2c2san t.wasm t.c >/dev/null 2>&1; rc=$?
echo "translator exit=$rc"; grep -n "caf" t.c t.h | head -5
[ $rc -eq 0 ] && cc -w -fsyntax-only -I"$T/w2c2" t.c
