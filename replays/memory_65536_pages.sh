#!/bin/sh
# replay (triage only): a memory of 65536 pages needs 2^32 bytes. (1) a non-shared memory grown from 65535 to 65536 pages must keep its
# contents; (2) a shared memory declared 1..65536 pages must have storage.  Before the fix both byte counts wrapped to 0 in U32
# (realloc(data, 0) released the memory; calloc(0, 1) reserved nothing).  Needs ~4 GiB of lazily committed address space.
# usage: <script> <w2c2 tree>
T=${1:-/repo}; S=$(mktemp -d /tmp/w2c2-replay.XXXXXX); trap 'rm -rf "$S"' EXIT
cat > "$S/t.c" <<'C'
#include <stdio.h>
#include "w2c2_base.h"
void trap(Trap t) { printf("trap %d\n", (int)t); exit(3); }
int main(int argc, char** argv) {
    wasmMemory* m;
    U32 r;
    if (argc > 1) {
        m = wasmMemoryAllocate(1, 65536, true);
        i32_store(m, 16, 7);
        printf("shared 1..65536: load -> %u\n", i32_load(m, 16));
        return i32_load(m, 16) == 7 ? 0 : 1;
    }
    m = wasmMemoryAllocate(65535, 65536, false);
    m->data[100] = 42;
    r = wasmMemoryGrow(m, 1);
    printf("grow(1) at 65535 pages -> %u, pages=%u\n", r, m->pages);
    printf("read back: %d\n", m->data[100]);
    return (r == 65535 && m->pages == 65536 && m->data[100] == 42) || r == (U32)-1 ? 0 : 1;
}
C
gcc -std=gnu89 -w -fsanitize=address -g -DWASM_THREADS_PTHREADS -I"$T/w2c2" "$S/t.c" -o "$S/t" -lpthread || exit 2
export ASAN_OPTIONS=detect_leaks=0
rc=0
timeout 300 "$S/t" 2>&1 | grep -E "grow|read back|ERROR|SUMMARY" | head -4; timeout 300 "$S/t" >/dev/null 2>&1 || { echo "FAIL: grow to 65536 pages"; rc=1; }
timeout 300 "$S/t" shared 2>&1 | grep -E "shared|ERROR|SUMMARY" | head -3; timeout 300 "$S/t" shared >/dev/null 2>&1 || { echo "FAIL: shared memory with maximum 65536 pages has no storage"; rc=1; }
exit $rc
