#!/bin/sh
# replay (triage only): a valid module whose export / import names contain '"' or '\' must still yield C that compiles
# and whose FuncExports / resolve() strings denote the wasm names. usage: <script> <w2c2 tree>
T=${1:-/repo}; S=$(mktemp -d /tmp/w2c2-replay.XXXXXX); trap 'rm -rf "$S"' EXIT
cmake -G Ninja -S "$T" -B "$S/b" >/dev/null 2>&1 && cmake --build "$S/b" --target w2c2 >/dev/null 2>&1 || exit 2
cd "$S"
python3 - <<'PY'
import sys; sys.path.insert(0,'/verif/replays')
from mkwasm import *
m=module(types=[functype([],[I32])], imports=[import_mem('e"nv','mem\\ory',limits(1))], funcs=[0],
   exports=[export('say "hi"\\n',0,0)], codes=[code([], b'\x41\x2a')])
open('t.wasm','wb').write(m)
PY
"$S/b/w2c2/w2c2" t.wasm t.c || exit 2
grep -n 'resolve("\|wasmFunc)' t.c
cat > main.c <<'C'
#include <stdio.h>
#include <string.h>
#include "t.h"
void trap(Trap t){printf("trap %d\n",t);abort();}
U32 wasmMemoryAtomicWait(wasmMemory*m,U32 a,U64 e,I64 t,bool w){return 0;}
U32 wasmMemoryAtomicNotify(wasmMemory*m,U32 a,U32 c){return 0;}
static int seen;
static void* resolve(const char* mod, const char* name){ if(!strcmp(mod,"e\"nv")&&!strcmp(name,"mem\\ory")) seen=1; return wasmMemoryAllocate(1,1,false); }
extern wasmFuncExport tFuncExports[];
int main(){tInstance i; tInstantiate(&i,resolve);
 printf("import names intact: %d; export name: [%s]\n", seen, tFuncExports[0].name); return !(seen && !strcmp(tFuncExports[0].name,"say \"hi\"\\n"));}
C
cc -w -I"$T/w2c2" -o t main.c t.c -lm && ./t
