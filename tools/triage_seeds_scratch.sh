#!/bin/sh
# usage: tools/triage_seeds_scratch.sh <tag>:<PID> ...   - like triage_seeds.sh, but the check runs on a scratch copy (try_seed_scratch.sh),
# so that /repo stays untouched while replays read it
for pair in "$@"; do
  tag=${pair%%:*}; pid=${pair##*:}
  [ -f /tmp/seedout-$tag/patch.diff ] || { echo "== $tag: no patch yet"; continue; }
  c=$(/verif/tools/confirm_seed.sh /tmp/seedout-$tag 2>&1 | tail -1)
  r=$(TAIL=3 /verif/tools/try_seed_scratch.sh /tmp/seedout-$tag/patch.diff $pid 2>&1 | cut -c1-360)
  echo "== $tag ($pid): $c"; echo "$r"
done
