#!/bin/sh
# usage: tools/prep_seed.sh <tag> <PROPERTY ID>  - scratch worktree + prompt for an independent seeding sub-agent
tag=$1; pid=$2
git -C /repo worktree add -q --detach /tmp/seedwt-$tag HEAD && mkdir -p /tmp/seedout-$tag
python3 - "$tag" "$pid" <<'PY'
import sys, json
tag, pid = sys.argv[1], sys.argv[2]
for l in open('/verif/properties.jsonl'):
    p = json.loads(l)
    if p['id'] == pid:
        prop = "%s — %s\n\nStatement: %s\n\nQuantifier: %s\n" % (p['id'], p['title'], p['statement'], p['quantifier']['text'])
t = open('/verif/tools/seed_prompt.txt').read()
t = t.replace('PROPERTYTEXT', prop).replace('WORKTREE', '/tmp/seedwt-%s' % tag).replace('OUTDIR', '/tmp/seedout-%s' % tag)
import os
if os.environ.get('SEED_HINT'):
    t = t.replace('Verify all of 1-4 yourself', 'ADDITIONAL GUIDANCE: ' + os.environ['SEED_HINT'] + '\n\nVerify all of 1-4 yourself')
open('/tmp/seedout-%s/PROMPT.txt' % tag, 'w').write(t)
PY
echo "/tmp/seedout-$tag/PROMPT.txt"
