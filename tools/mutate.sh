#!/bin/sh
# usage: tools/mutate.sh <PID> <file relative to repo> <sed expression> [tier]
# Applies one sed edit to a scratch copy of /repo's sources (outside /repo and /verif), verifies that the
# edited file still compiles, runs the check against the copy, removes the copy.  Evidence goes to a temp dir.
PID=$1; FILE=$2; EXPR=$3; TIER=${4:-quick}
S=$(mktemp -d /tmp/w2c2-mut.XXXXXX)
trap 'rm -rf "$S"' EXIT
mkdir -p "$S/repo"
(cd /repo && cp -r w2c2 wasi futex "$S/repo/")
cp "$S/repo/$FILE" "$S/orig"
sed -i "$EXPR" "$S/repo/$FILE"
if cmp -s "$S/orig" "$S/repo/$FILE"; then echo "MUTANT-NOOP: sed changed nothing"; exit 3; fi
diff "$S/orig" "$S/repo/$FILE" | head -6
case "$FILE" in
  *.h) echo "#include \"$S/repo/$FILE\"" | cc -std=gnu90 -fsyntax-only -DWASM_THREADS_PTHREADS -DHAS_UNISTD=1 -x c - 2>&1 | head -5 ;;
  w2c2/*.c) cc -std=gnu90 -fsyntax-only -DHAS_GETOPT=1 -DHAS_GLOB=1 -DHAS_LIBGEN=1 -DHAS_PTHREAD=1 -DHAS_STRDUP=1 -DHAS_UNISTD=1 "$S/repo/$FILE" 2>&1 | grep -E "error" | head -5 ;;
  wasi/*.c) cc -std=gnu90 -fsyntax-only -DHAS_FCNTL=1 -DHAS_GETENTROPY=1 -DHAS_LSTAT=1 -DHAS_STRNDUP=1 -DHAS_SYSRESOURCE=1 -DHAS_SYSTIME=1 -DHAS_SYSUIO=1 -DHAS_TIMESPEC=1 -DHAS_UNISTD=1 -DWASM_THREADS_PTHREADS "$S/repo/$FILE" 2>&1 | grep -E "error" | head -5 ;;
  futex/*.c) cc -std=gnu90 -fsyntax-only -DWASM_THREADS_PTHREADS -DHAS_UNISTD=1 "$S/repo/$FILE" 2>&1 | grep -E "error" | head -5 ;;
esac
VERIF_REPO="$S/repo" VERIF_EVIDENCE_DIR="$S/ev" /verif/check "$PID" --tier "$TIER" 2>&1 | grep -v "^VIOLATION" | tail -${TAIL:-4}
echo "check exit=$?"
