#!/bin/sh
# usage: tools/triage_seeds.sh <tag>:<PID> ...   - confirm each delivered seed and run its property's check on it
for pair in "$@"; do
  tag=${pair%%:*}; pid=${pair##*:}
  [ -f /tmp/seedout-$tag/patch.diff ] || { echo "== $tag: no patch yet"; continue; }
  c=$(/verif/tools/confirm_seed.sh /tmp/seedout-$tag 2>&1 | tail -1)
  r=$(/verif/tools/try_seed.sh /tmp/seedout-$tag/patch.diff $pid 2>&1 | tail -2 | cut -c1-260)
  echo "== $tag ($pid): $c"; echo "$r"
done
