#!/bin/sh
# usage: tools/try_seed_scratch.sh <patch.diff> <PID>...  - like try_seed.sh, but on a scratch copy of /repo's sources (VERIF_REPO), so that
# /repo itself stays untouched while other jobs read it
P=$1; shift
S=$(mktemp -d /tmp/w2c2-tryseed.XXXXXX); trap 'rm -rf "$S"' EXIT
mkdir -p "$S/repo"; (cd /repo && cp -r w2c2 wasi futex "$S/repo/")
# AST dumps of patched sources go to a throw-away cache that starts as a hard-link copy of the main one
cp -al /verif/.cache "$S/cache" 2>/dev/null || mkdir -p "$S/cache"; export VERIF_CACHE_DIR="$S/cache"
patch -s -p1 -d "$S/repo" < "$P" || { echo "patch does not apply"; exit 3; }
for pid in "$@"; do
  VERIF_REPO="$S/repo" VERIF_EVIDENCE_DIR="$S/ev" /verif/check "$pid" 2>&1 | grep -v '^VIOLATION' | tail -${TAIL:-4} | cut -c1-400
done
