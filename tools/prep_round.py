#!/usr/bin/env python3
"""usage: tools/prep_round.py <round tag, e.g. r7> <PID>...   - scratch worktree + prompt per property for a seeding round.
The prompt carries, as "additional guidance", one line per change already kept for that property (so that a new round lands
somewhere else) and the resource limits.  The sub-agent sees nothing from /verif besides this text."""
import glob, json, os, subprocess, sys
rnd, pids = sys.argv[1], sys.argv[2:]
LIMITS = open('/verif/tools/refactor_prompt.txt').read().split('RESOURCE LIMITS', 1)[1]
LIMITS = 'RESOURCE LIMITS' + LIMITS.split('If a run of the translator')[0]
for pid in pids:
    tag = '%sc%s' % (rnd, pid[1:])
    earlier = []
    for m in sorted(glob.glob('/verif/seeded/*/meta.json')):
        d = json.load(open(m))
        if d['property'] == pid:
            earlier.append('%s (%s)' % (d['id'][4:].replace('-', ' '), d['needs_to_manifest']))
    hint = ('Earlier experiments for this property already made the following changes; choose a DIFFERENT function and a different clause '
            'of the property (prefer parts of the statement that none of these touch, unusual-but-valid inputs, rarely used options or '
            'configurations, and module-level or cross-function interactions): ' + '; '.join(earlier))
    env = dict(os.environ, SEED_HINT=hint)
    subprocess.check_call(['/verif/tools/prep_seed.sh', tag, pid], env=env, stdout=subprocess.DEVNULL)
    with open('/tmp/seedout-%s/PROMPT.txt' % tag, 'a') as f:
        f.write('\n\n' + LIMITS)
    print(tag)
