#!/usr/bin/env python3
"""Regenerates /verif/MANIFEST.json from the table below (kept in one place so it stays valid)."""
import json, os, sys
HERE = os.path.dirname(os.path.dirname(os.path.abspath(__file__)))

CHECKS = {
 'C01': dict(
   technique='partial evaluation of the emitters per opcode row + typed-template semantic descriptors (bit-slice abstract domain, affine rotate counts, guard/trap chains); exact C-semantics evaluation of the template expressions on a boundary operand grid as second decision and refutation fallback; header parsed with and without compiler builtins (portable bit-counting functions evaluated on an operand-pattern grid)',
   text='For all 66 integer numeric encodings, both formatting modes (thorough: also symbol prefixing and the non-builtin header '
        'configuration): the emitted statement, parsed against the current w2c2_base.h with macros expanded, has the operator, operand '
        'order, signed/unsigned bit-slice interpretation, shift mask, rotate counts and div/rem guard-to-trap structure of the '
        'specification row, the right stack effect and a declared result slot. Decides the per-instruction translation for all operand '
        'values; exhaustive over the finite dispatch table.',
   note='Trusted: clang typing and macro expansion, C integer semantics of the host compiler. The portable (no-builtin) clz/ctz/popcnt '
        'functions are refuted on an operand-pattern grid, not proved for all operands; a template of an unrecognised shape that agrees with the '
        'specification on the boundary grid leaves the property undecided (exit 2). Not decided: composition over nestings (C03 decides the inductive steps).',
   ref='DESIGN.md 4/C01'),
 'C02': dict(
   technique='partial evaluation per opcode row + typed-template descriptors; exact boundary decision by order abstraction over float breakpoints; finite float-class abstraction for min/max',
   text='For all 70 float and conversion encodings: arithmetic/comparison rows use the C operator on the slot\'s own IEEE type with '
        'operands in stack order; abs/sqrt/ceil/floor/trunc/nearest/copysign call a member of the right libm semantic class at the '
        'right width (round() is rejected for nearest); promote/demote/convert are single roundings with the right integer '
        'signedness; reinterpret is a same-size memcpy. min/max are decided on the complete class abstraction {NaN,-inf,neg,-0,+0,pos,+inf}^2; '
        'trapping and saturating truncations are decided exactly at every float adjacent to a guard constant or specification bound '
        '(off-by-one-ulp boundaries, wrong trap kind, wrong saturation constant and out-of-range C conversions are all reported with a witness).',
   note='Assumes an IEEE-754 host in round-to-nearest without excess precision and ISO C Annex F libm; NaN payload propagation of the '
        'C compiler for -x/fabs/copysign is trusted. U64->float rounding direction is implementation-defined in C (noted, not decided).',
   ref='DESIGN.md 4/C02'),
 'C03': dict(
   technique='partial evaluation of the control-flow emitters on instruction scripts (the inductive steps of the slot invariant) + ignore-mode equivalence over the whole opcode table',
   text='Label placement (block/if after the body, loop before), the move of a carried value into the slot at the label\'s entry height '
        'for br/br_if/br_table/return at two stack heights with extra operands below, restoration of the type-stack height and label '
        'stack after each construct, if/else arms writing the same result slot, revival of emission after dead code (including an arm '
        'that ends in br/return/unreachable), br_table case order and default, select/drop/local.get/set/tee roles, local index to type '
        'resolution, zero-initialised declared locals, declarations before statements and the L0/return epilogue. For every one of the '
        '~190 instructions of the oracle table: in dead code it emits nothing, keeps the stack and consumes exactly the immediates it '
        'consumes in live code. A dead instruction leaves the label stack unchanged; the branch family also targets if labels from both arms.',
   note='The induction over arbitrary nestings is not mechanised: these are its base and step cases at sampled heights/types '
        '(slot indices are affine in the height). C goto/switch semantics and module validity are assumed.',
   ref='DESIGN.md 4/C03'),
 'C04': dict(
   technique='partial evaluation of the call emitters over the arity grid (affine slot indices) + cross-emitter agreement of function identifiers on one module; host-symbol cross-check against wasi.c',
   text='call and call_indirect for arities 0..4 (thorough 0..8), with and without result, at two stack heights: the emitted statement '
        'equals, token for token, <new top slot> = callee(i, operands deepest-first), for call_indirect with the table index from the top '
        'slot and a function-pointer cast rendered from the same signature; stack effect and result declaration are right. On a module with '
        'two imports and three functions the call emitter, the import/function declarations, the definitions, the export wrappers, the element '
        'stores, the start call and the symbol-prefixed variants all spell the same identifier for the same module-level index and pick the '
        'type through imports first; WASI imports are spelled exactly as the symbols wasi.c defines. A call or call_indirect in unreachable code, translated from bytes (minimal and padded LEB128), consumes exactly its immediates and emits nothing (R04.6). Each function is translated with an empty operand stack whatever the function written before it left (R04.7, shared with C03). An imported table / global is bound with resolve() literals denoting exactly the import\'s two names, also for names whose escapes could swallow a following digit (R04.8).',
   note='Runtime table bounds/signature checks are outside the property; the C ABI is trusted.',
   ref='DESIGN.md 4/C04'),
 'C05': dict(
   technique='partial evaluation of emitters (both offset variants) + typed-template address rules; path summaries of runtime functions with ordered memory-touch traces',
   text='For all 23 load/store encodings: the address argument is a 64-bit unsigned sum of the zero-extended address slot and the '
        'decoded static offset (memarg use), operands are passed in stack order, and the runtime function reached performs exactly '
        'one byte copy of the access width with the row\'s sign/zero extension (loads) or of the wrapped low bits (stores). '
        'memory.grow is summarised path by path: wrap and maximum guards dominate success, failure paths store nothing, the old '
        'page count is returned, the reallocated tail is zeroed before data is republished. memory.copy reaches memmove, fill '
        'memset, init LOAD_DATA with (dest, src, n) roles; memory.size reads the page count. Every access is also emitted with the concrete static offsets 1, 2^31-1, 2^31, 2^31+16 and 2^32-1 and the emitted address expression is evaluated (C semantics, 64 bit) for two base addresses: it equals base + offset.',
   note='In-bounds accesses only (as the property); host memcpy/memmove/memset trusted; page arithmetic for all deltas decided '
        'only as guard presence/position; max==0 sentinel for "no maximum" is noted, not decided. Little-endian configuration (big-endian is C19).',
   ref='DESIGN.md 4/C05'),
 'C06': dict(
   technique='partial evaluation of the module-level emitters on a family of concrete module shapes; structural analysis of the emitted C (defined vs called initialisers, order, reachability of segment loads, instance record, import binding, exports)',
   text='For 90 module shapes (defined/imported/no memory x table, globals with imported-global initialisers, active/passive data '
        'segments, element segments, start): Instantiate and NewChild call exactly the Init functions that are defined, in the order '
        'imports, memories+data, tables+elements, globals, start (once, last); every active data segment has a LOAD_DATA into the right '
        '(defined or imported) memory reachable from Instantiate; element stores target the right table with offset+k and module-level '
        'function identifiers. The instance record holds imports as pointers and defined state by value, no mutable file-scope state is '
        'emitted, imports are bound via resolve("module","name") with the right pointer type, globals are initialised through imported '
        'pointers, non-shared memories are allocated per instance and shared ones inherited, export wrappers and the FuncExports table are exact. Import and export names reach resolve() / the export table as C string literals denoting exactly the name\'s bytes (R06.9, shared with C11). The set-up emitters are evaluated with strict array bounds: a read past a module array (an index of one space used in another) is a violation (R06.10).',
   note='What the embedder\'s resolver returns, allocation failure and calloc semantics are outside the analysis.',
   ref='DESIGN.md 4/C06'),
 'C07': dict(
   technique='partial evaluation of the emitter + exact predicate abstraction over bit fields; AST format/type rules; concrete evaluation of the literal writer on a boundary bit-pattern family with the written constant read back under C conversion semantics (second decision, fallback for unrecognised writer shapes)',
   text='Decides statically, for all 2^32/2^64 immediates, that the translator\'s float classification tree equals the '
        'IEEE-754 classes (NaN -> bit-exact hex reinterpret, +-inf, -0, finite -> >=9/17-digit decimal), that integer '
        'literal forms and format length modifiers preserve all bits, that each const opcode is decoded by the reader '
        'of its own width into an integer field, and that all three constant positions go through that one renderer. '
        'Exhaustive over the finite abstraction; stronger than sampling because the abstraction cells cover every bit pattern. Integer helpers are decided on the digits they append for boundary values including powers of ten and zero digit groups, whatever their shape.',
   note='Trusted: clang front end; correctly rounded host printf and C literal parsing; union same-size type punning. '
        'Not decided: the run-time value the C compiler assigns to the literal.',
   ref='DESIGN.md 4/C07'),
 'C08': dict(
   technique='symbolic partial evaluation of the four LEB128 decoders for every encoding length with term decomposition of the decoded value; AST use-context rule for decoder return values; table/enum agreement and branch-sensitive must-analysis of the section dispatcher; call-graph effect summary of the custom-section reader; partial evaluation of the data-segment reader per kind; allocation and sibling-bound rules',
   text='For all byte values and every valid length n (1..5 / 1..10) the decoders return n, stop at the first byte without continuation bit '
        'and produce exactly OR_i((b_i & 0x7F) << 7i) truncated to the width, sign-extended from bit 7n-1 iff 7n < width (decided on the '
        'symbolic value, not sampled). At all 65 call sites the returned byte count is used only as a truth value, so padding cannot leak '
        'into decoded values. The reader table has the right reader for ids 0..12, success after a reader requires consumed == declared '
        'size (start snapshot taken before the call), unknown ids are skipped by the declared size. Code reachable from the custom-section '
        'reader writes only module->debugSections / functionNames and the name section needs the debug option. Data segment kind 0 yields '
        'the record of kind 2 with memory 0; kind 1 is passive; other kinds are rejected. The module record is calloc-ed and loops over '
        'module containers are bounded by the sibling count.',
   note='Not decided: equality of whole outputs for every pair of equivalent encodings (value-level), behaviour on over-long or otherwise invalid '
        'encodings, element-segment kinds beyond what the reader supports. The function hash depends on body bytes by design (file order only).',
   ref='DESIGN.md 4/C08'),
 'C09': dict(
   technique='structured lock-region must-analysis (held/free facts per mutex with loop fixpoint) of the writer pool in the HAS_PTHREAD=1 configuration; call-graph effect analysis of everything reachable from the worker entry (stores by storage class, non-reentrant callees, const casts); path enumeration of the static/dynamic split loops; typed-AST equality of every template across formatting modes; partial evaluation of File/String twin emitters on argument grids derived from parameter types; partial evaluation of the bundled getopt from program start on command-line families against POSIX getopt',
   text='Worker and producer: every access to writer.task / writer.done / the shared task record happens with the writer mutex held, '
        'lock and unlock are paired on every path including the done exit, every pthread_cond_wait sits in a while loop over the shared '
        'predicate with that mutex, posting a task is followed by a signal and done by a broadcast before the unlock, the worker clears the '
        'slot under the lock. None of the ~140 functions reachable from the worker writes static storage, calls a non-reentrant library '
        'function or casts away const from module data; the stateful debug-line cursor reaches workers only under threadCount == 1. The '
        'split loops append each function exactly once to exactly one list before advancing, static only under hash equality with the '
        'consumed reference entry. For about 650 template pairs the pretty and compact forms have the same typed AST and symbol prefixing '
        'only prefixes callee identifiers; all File/String twin emitters agree on a grid of names/indices/flags. The getopt option string and the option switch agree on which options take an argument (R09.12); the export-section reader records the export name of every defined function, the first one included, which -g consults (R09.13). The static/dynamic split is evaluated on concrete hash-sorted lists: every function lands in exactly one list (R09.3). Every local has its own zero initialiser in the compact and in the pretty output (R09.14, shared with C03 / C11). The producer waits under the lock for an empty task slot before posting the next task and before announcing done (R09.15).',
   note='Not decided: byte-identical output and deadlock freedom under every interleaving (schedule-quantified; the rules are the structural '
        'necessary conditions), the file-count arithmetic for all (n, f), -g/-r behaviour beyond these rules, compile-on-its-own of every emitted file.',
   ref='DESIGN.md 4/C09'),
 'C10': dict(
   technique='whole-translator AST rules: worst-case sprintf length from format + value ranges of promoted arguments vs destination array; source-derived-from-destination analysis for restrict copies; branch-sensitive structured must-analysis (facts from comparison outcomes, killed by writes and callee field mod-sets) for raw Buffer.data access and for interprocedural may-be-NULL flows',
   text='Over all 14 translator sources (about 600 function definitions): every sprintf into a fixed array fits for every argument value '
        '(e.g. %02X of a promoted plain char counts 8 digits); no strcpy/strcat/strncpy/memcpy/sprintf gets a source that points into its '
        'destination (basename/dirname/strchr results, pointer arithmetic, locals initialised that way); every raw read through Buffer.data '
        '(dereference, memcpy/strncpy/memcmp/SHA1 source, snapshot pointers) and every bufferSkipUnchecked is dominated by a comparison '
        'of the accessed length with the same buffer\'s length whose failing edge leaves the path (the consumed-bytes adjustment in the code '
        'section reader is recognised as an idiom); pointers flowing interprocedurally from the two locations the code itself treats as '
        'possibly NULL (writer-task debugLines, per-function name slots) are never dereferenced or passed to a library function without a '
        'dominating NULL test; hex escapes of name bytes format an unsigned byte. These are necessary conditions of memory safety. SHA1Update (every function body is hashed) is evaluated on lengths around the block boundaries for every buffer fill: all block reads and copies stay inside the input and the context buffer (R10.16). The growable type / declaration / label tables are stored to only by their owner helpers or under a guard against the table\'s own length (R10.17).',
   note='Not decided: termination and memory safety for every module as a whole (index arithmetic on type/label stacks relies on module '
        'validity), allocation failure, PATH_MAX-sized path copies (axiom), libdwarf-only consumers. Distinct access paths in one function '
        'are assumed not to alias.',
   ref='DESIGN.md 4/C10'),
 'C11': dict(
   technique='type-based undefined-behaviour rules over the typed AST of every extracted statement template and reached w2c2_base.h function (signed arithmetic, shift counts, division guards, float-to-int guards, typed memory dereference); compile witness (gcc and clang syntax+type checking of one TU of all templates in GNU C89..C17); C lexing of emitted string literals',
   text='About 650 statement templates (every opcode row of the dispatch table in both formatting modes, memory/atomic variants, '
        'control-flow scripts) are extracted by partial evaluation of the emitter and parsed against the current w2c2_base.h: every '
        '+ - * negation has unsigned or floating computation type (or constant / 16-bit operands), every shift count is masked below '
        'the width of the shifted value and << acts on unsigned values, every integer / and % is in the else-position of a zero-divisor '
        'guard and (signed) a MIN/-1 guard, every float-to-int conversion sits under a range guard, no runtime access function '
        'dereferences linear memory through a typed pointer. The TU of all templates is accepted by gcc and clang as GNU C89 '
        '(thorough: C99/C11/C17) with implicit declarations and pointer/int mismatches as errors. Import and export names with quotes, '
        'backslashes, control and non-ASCII bytes are emitted as C string literals that lex back to the same bytes. The function-export table is declared with room for every row and the terminator (R11.14). A branch carrying a value to a block or if label moves it into the label\'s result slot (R11.15, shared with C03).',
   note='Same results across compilers/-O levels is argued from absence of these UB classes plus single-assignment template shape; the C '
        'compilers themselves are trusted. Exact trap boundaries of float-to-int are decided in C02. Debug-mode #line paths and __asm__ labels are not covered.',
   ref='DESIGN.md 4/C11'),
 'C12': dict(
   technique='partial evaluation of every I/O import (both ABI generations) with symbolic guest memory: affine guest load/store offsets vs witx layouts, native-call argument provenance, table evaluation against host macros read at run time, seek/restore pairing with errno havoc; partial evaluation of the same imports on a concrete guest memory and a model of a regular file (single transfers over iovec shapes, and all call sequences of bounded length) against an independent POSIX reference',
   text='ABI signatures of all imports are compared with the witx lowering (mismatches of the nine imports named by the property are '
        'violations). For fd_read/fd_write/fd_pread/fd_pwrite with 0, 1 and 3 segments: the vector is read at stride 8 (buf@0, len@4) in '
        'ascending order, native segment k is built from guest entry k, the native call gets the table\'s fd and the same count, the u32 '
        'count is stored at the result pointer, 64-bit offsets reach lseek un-narrowed, errors never store results or report SUCCESS. '
        'fd_seek/fd_tell: whence tables of both generations against the host SEEK_* values, u64 result. errno switch: every host E* value '
        'maps to the witx number of the same name. path_open: each oflags/fdflags bit sets the same-named host flag, access mode follows the '
        'rights, the new descriptor is stored as u32. filestat (both generations) and fdstat: (offset, width) of every store and the zero-fill '
        'size equal the witx struct. wrapPositional restores the saved position on every path and preserves the transfer\'s errno. Positional transfers with offsets that are negative as off_t fail with EINVAL and transfer nothing. The descriptor table is evaluated on concrete insert / close sequences: the number path_open reports denotes the new descriptor and no other live one (R12.9, shared with C13).',
   note='POSIX behaviour of the host calls, short transfers and resulting file contents are not decided; host constants come from the build\'s headers.',
   ref='DESIGN.md 4/C12'),
 'C13': dict(
   technique='typestate analysis by partial evaluation: summary of fd_close gives the CLOSED record; every descriptor-taking import of both ABI generations is evaluated on CLOSED and on a never-issued index; syntactic who-writes rules for the append-only table',
   text='The descriptor table only grows by one in the insertion helper, insertion returns the new last index and leaves live slots '
        'untouched, only the table helpers store into slots, wasiInit installs the host standard streams first. fd_close is '
        'summarised on an unknown slot: every value passed to close/closedir/free must be overwritten in the table by a dead '
        'constant on success. All 44 descriptor-taking entry points (22 imports x 2 generations) are then partially evaluated '
        'on that closed record and on an out-of-range index with all other arguments unknown: no native call, no string or free '
        'operation on a descriptor field, and EBADF on every path. Because indices are never reused and the closed state is a '
        'single constant record, this decides "invalid after close" for all call sequences. path_open reports the number the table issued as a full u32 (R13.9).',
   note='Host close/closedir outcomes, allocation failure and descriptor exhaustion are not considered; imports that are '
        'unimplemented upstream (unconditional ENOSYS) are listed in the evidence but not decided.',
   ref='DESIGN.md 4/C13'),
 'C14': dict(
   technique='taint rule by partial evaluation (source guest pointer, sanitizer resolvePath, sinks native path calls); linear-form bound entailment for resolvePath; largest-admitted-value bound for every write of a path import into its fixed-size buffers; must-precede rule on readdir path summaries; witx dirent layout; errno table decided row by row',
   text='For the eight path_* imports of both generations the native path argument is a copy of resolvePath\'s output, resolution is anchored '
        'at the stored descriptor path, a failed resolution stops before any host call, the host operation is the one the import names and '
        'its failure is reported. resolvePath is summarised with symbolic strlen(directory) and pathLength: every memcpy/store is bounded, '
        'coefficient-wise, by a guard of its path (so an off-by-one in either guard is reported with the offending index expression), the '
        'empty path is rejected, absolute paths are copied unchanged, a separator is inserted iff needed; descriptor paths satisfy 0 < len < PATH_MAX. '
        'fd_readdir, for {stream open, closed} x {cookie 0, unknown}: the first readdir() is always preceded by opendir/seekdir/rewinddir; dirent '
        'fields are stored at the witx offsets with telldir/inode/strlen values, the name follows the record, bufused = buflen signals a full buffer. Every path import is additionally evaluated with concrete resolved paths (root, doubled and trailing separators): the bytes handed to the host call are the resolved path, for rmdir/mkdir up to trailing separators (R14.12). The errno table has rows for the errors POSIX requires of the named operations (ENOTEMPTY, ELOOP, ENAMETOOLONG, EOVERFLOW). With the host call failing, every path import returns exactly the witx number of errno for a family of errno values (R14.13). An entry whose name is cut by the end of the buffer still carries its full name length. Every successful fd_readdir path leaves the directory stream in the descriptor table, so cookies returned earlier stay resumable after the end was reached (R14.15).',
   note='Host directory semantics (stable telldir cookies), completeness of a listing across calls and symlink-follow flags are not decided. '
        'The unbounded strcat in the lstat fallback of fd_readdir is recorded as a note (not replayable here).',
   ref='DESIGN.md 4/C14'),
 'C15': dict(
   technique='path summaries by partial evaluation with symbolic strings (linear forms over strlen), host clock macros read at run time, guard-bounded API size limits, read-before-free ordering on traced records',
   text='args/environ: for vectors of 0, 1 and 3 symbolic strings the size call reports the count and the sum of strlen+1, the copy call '
        'copies string k with its NUL to buffer + the sum of the previous sizes and stores that address at pointers + 4k. clock_time_get maps '
        'ids 0-3 to the same-named host clocks, rejects other ids with EINVAL before any native call and stores sec*10^9+nsec computed in '
        '64 bits as u64. Every getentropy() length is bounded by 256 through a guard of its path and the chunks add up to the request. '
        'proc_exit reaches exit(code). thread-spawn: counter starts at 1, one atomic fetch-add, negative result and no allocation without the '
        'wasi_thread_start export, start record = {newChild(instance), arg, id, export}, the thread body reads all fields before the single '
        'free and calls start exactly once. A thread\'s instance takes the parent\'s descriptor of every module-defined shared memory, whatever its position in the memory index space (R15.6). Unknown clock ids include values whose low 8 / 16 bits are a known id. A copy that forks on the strings is decided on concrete vectors with empty strings in non-zero guest memory.',
   note='Clock monotonicity, randomness quality, that exit() terminates and thread scheduling are not decided; the /dev/random fallback '
        '(HAS_GETENTROPY=0 builds) is not analysed in the quick tier.',
   ref='DESIGN.md 4/C15'),
 'C16': dict(
   technique='finite table check: partial evaluation dispatch -> template -> runtime function path summary (one __atomic builtin, width, order, wrapping, zero-extension)',
   text='All 63 atomic access flavours (0xFE 0x10-0x4E) are followed from the sub-opcode through the emitter to the runtime function; '
        'its summary must consist of exactly one seq_cst __atomic builtin of the row\'s operation on an object of the access width, fed '
        'with operands wrapped to that width and returning the zero-extended old (cmpxchg: observed) value; the emitter accepts exactly '
        'the natural alignment and rejects any other; effective address and operand roles as for plain accesses. In the mutex-based configuration every read-modify-write flavour is also evaluated on concrete bytes and operands (R16.5).',
   note='Atomicity and sequential consistency of the builtins on the host are trusted; linearizability over interleavings is not decided '
        '(it follows from single-builtin bodies under that trust). Little-endian configuration; the big-endian lock regions are decided in C19.',
   ref='DESIGN.md 4/C16'),
 'C17': dict(
   technique='partial evaluation of the three emitters (offset use) + path summaries of futex.c with traced locks, condition waits, map/list operations and status havoc; lock-region, ordering and counting rules on the traces',
   text='The wait32/wait64/notify templates must add the decoded static offset to the address operand and pass operands in stack order. '
        'Every path of wasmMemoryAtomicWait/Notify (nondeterministic allocation and map results, status re-read after each of up to 2 '
        'condition waits, 3 queued waiters with unknown status for notify) keeps all futex state inside one balanced lock region, '
        'never unlocks between the expected-value load and the enqueue, waits on the protocol mutex, re-tests status under the lock, '
        'derives 0/1/2 from what it observed, unlinks before freeing, removes the map entry only for an empty list; notify flips only '
        'nodes observed Waiting, signals each once, is bounded by count and returns the number flipped. A lock-free load of the cell may answer not-equal; the decision to sleep rests on the last load, made under the mutex and compared with the expected value.',
   note='Structural premises only: absence of lost wake-ups/deadlock over all interleavings, hash collisions and timeout arithmetic '
        'are not decided (model-checking territory). pthread semantics and the map/list primitives are trusted.',
   ref='DESIGN.md 4/C17'),
 'C18': dict(
   technique='static lock-set consistency over partial-evaluation path summaries (ordered read/write/lock/unlock traces of the memory descriptor); mutex balance of every runtime function that takes the memory mutex in both atomics configurations; rendered InitMemories for every limits pair',
   text='On every shared path of wasmMemoryGrow all reads and writes of pages/size lie inside the single, balanced lock region of the '
        'memory mutex; shared memories are never reallocated or given a new data pointer; failed grows store nothing; the memory.size '
        'template reads the page count through an accessor whose summary holds the mutex (a plain field read is reported). A size-publishing function clears storage only inside the lock region and before the page count is stored. The memory.grow / memory.size templates hand the full 32-bit operand to the runtime (R18.7, shared with C05). The futex wait paths are evaluated for infinite, 1000 ns, 0 and 1 ns timeouts when the mutex balance is decided.',
   note='Decides the structural premises of linearizability (consistent lock set, balanced regions), not the interleaving semantics; '
        'pthread mutex semantics trusted; fairness not addressed.',
   ref='DESIGN.md 4/C18'),
 'C19': dict(
   technique='path summaries of the runtime header parsed for a big-endian target description with and without compiler swap builtins; count/width/position of byte reversals on symbolic values (open-coded reversals recognised semantically on a bit basis); concrete byte-level evaluation of all access functions; cast query over wasi.c',
   text='For all 86 access flavours in the big-endian configuration the value returned and the value stored each carry exactly one byte '
        'reversal of exactly the access width, applied to the loaded bytes / as the last step before the store, none for 8-bit and bulk '
        'copies; RMW/cmpxchg are single lock regions; the translator\'s float-immediate readers reverse once (and not at all on '
        'little-endian); wasi.c never reinterprets guest memory as a multi-byte object.',
   note='Compile-only on this little-endian host; __builtin_bswapN trusted; alignment of the typed accesses on real big-endian hardware and '
        'the non-builtin mask-and-shift swap macros are not decided.',
   ref='DESIGN.md 4/C19'),
 'C20': dict(
   technique='who-may-call rules with interprocedural string provenance; structured must-execute (dominance) analysis; partial evaluation of the deletion filter over symbolic characters compared as character cubes with the naming pattern',
   text='Every file-creating/-deleting libc call in the 14 translator units is enumerated; each write-mode fopen name is traced through '
        'parameters, struct fields and local copies to a basename() copy of the output path (optionally with .h), to the %c%010u.c '
        'sprintf whose prefix flows from the literals s/d, or to the literal "datasegments"; inputs are opened read-only; chdir(dirname(output)) '
        'dominates writer and cleaner; remove() occurs only in the cleaner, which runs only under -c. The set of names that reach remove() '
        'is computed exactly for every name length 0..20 and equals [sd][0-9]{10}.c in both directions; the writer\'s format, index '
        'width and buffer size agree with it. Option string and option switch agree on which options take an argument (R20.8) - otherwise the operands shift and the output lands on the input path. The cleaner\'s glob pattern (literals, ?, [sets], one *) is intersected with the language of names its filter lets through.',
   note='Symlinks in the output directory, the behaviour of glob()/basename() and races with other processes are outside the analysis.',
   ref='DESIGN.md 4/C20'),
}

NOT_APPLICABLE = {}

def main():
    props = [json.loads(l)['id'] for l in open(os.path.join(HERE, 'properties.jsonl'))]
    checks = []
    for pid in props:
        if pid not in CHECKS:
            continue
        c = CHECKS[pid]
        checks.append(dict(
            property_id=pid,
            quick_cmd='./check %s --tier quick' % pid,
            thorough_cmd='./check %s --tier thorough' % pid,
            evidence_file='/verif/evidence/%s.json' % pid,
            replay_cmd_template='./check --replay {path}',
            engine='sa',
            level_claimed=dict(category='other', text=c['text'], design_ref=c['ref']),
            level_note=c['note'],
            technique=c['technique'],
        ))
    na = [dict(property_id=p, reason=NOT_APPLICABLE.get(p, 'check not yet implemented in this revision (static-analysis design in DESIGN.md section 4); no claim is made'))
          for p in props if p not in CHECKS]
    m = dict(
        version=1,
        setup_cmd='python3 -c "import json,sys; sys.exit(0)"',
        hooks=dict(guard='W2C2_VERIF', enable='no hooks are needed: every rule analyses the unmodified sources',
                   baseline_off_cmd='/verif/tools/baseline.sh', source_commits=[], add_only=True),
        engines=[dict(name='sa', path='/verif/sa', serves_properties=sorted(CHECKS),
                      kind_free_text='custom static analyser in Python over clang-14 JSON ASTs of /repo: partial evaluator '
                      '(abstract interpreter) of the emitters, typed-template analysis against w2c2_base.h, CFG/lock-region '
                      'dataflow, oracle tables keyed by wasm/WASI encodings')],
        checks=checks,
        not_applicable=na,
        notes='Exit codes: 0 held / only listed known findings; 1 unlisted violation (VIOLATION line); 2 analysis broken '
              '(anchor vanished, floor not met) - never a verdict. known_findings.json lists genuine defects (known/fixed).',
    )
    with open(os.path.join(HERE, 'MANIFEST.json'), 'w') as f:
        json.dump(m, f, indent=1)
    print('MANIFEST.json: %d checks, %d not_applicable' % (len(checks), len(na)))

if __name__ == '__main__':
    main()
