#!/bin/sh
# usage: tools/confirm_seed.sh <seedout dir>   - independent confirmation of a seeded change in a fresh scratch worktree:
# demo passes on the unchanged tree; with the patch the project builds, the 15 baseline tests pass, the demo fails.
D=$1
W=$(mktemp -d /tmp/confirm-seed.XXXXXX); rmdir "$W"
git -C /repo worktree add -q --detach "$W" HEAD || exit 3
trap 'git -C /repo worktree remove --force "$W" >/dev/null 2>&1; rm -rf "$W"' EXIT
sh "$D/demo/run.sh" "$W" > "$W.demo0" 2>&1; r0=$?
echo "demo on unchanged tree: exit $r0"; tail -2 "$W.demo0"
git -C "$W" apply "$D/patch.diff" || { echo "patch does not apply"; exit 3; }
cmake -G Ninja -S "$W" -B "$W/_b" >/dev/null 2>&1 && cmake --build "$W/_b" >/dev/null 2>&1; rb=$?
echo "build with change: exit $rb"
n=$( ( "$W/_b/w2c2/w2c2_test"; "$W/_b/wasi/w2c2wasi_test" ) 2>&1 | grep -c -E '^(PASS|OK resolvePath)')
"$W/_b/w2c2/w2c2_test" >/dev/null 2>&1; t1=$?; "$W/_b/wasi/w2c2wasi_test" >/dev/null 2>&1; t2=$?
echo "baseline tests with change: $n of 15 passing (exit $t1/$t2)"
rm -rf "$W/_b"
sh "$D/demo/run.sh" "$W" > "$W.demo1" 2>&1; r1=$?
echo "demo with change: exit $r1"; tail -3 "$W.demo1"
rm -f "$W.demo0" "$W.demo1"
if [ $r0 -eq 0 ] && [ $rb -eq 0 ] && [ "$n" -eq 15 ] && [ $t1 -eq 0 ] && [ $t2 -eq 0 ] && [ $r1 -ne 0 ]; then echo "CONFIRMED"; exit 0; fi
echo "NOT CONFIRMED"; exit 1
