#!/bin/sh
# usage: tools/replay_refactorings.sh  - every stored behaviour-preserving patch must leave all 20 checks at exit 0
bad=0
for d in /verif/refactorings/*/; do
  echo "== $(basename $d)"; /verif/tools/try_refactor.sh "$d/patch.diff" | tail -3; /verif/tools/try_refactor.sh "$d/patch.diff" | grep -q "checks not at exit 0: 0" || bad=$((bad+1))
done
echo "refactoring patches with alarms: $bad"; [ $bad -eq 0 ]
