#!/bin/sh
# usage: tools/replay_refactorings.sh  - every stored behaviour-preserving patch must leave all 20 checks at exit 0
# (JOBS patches are replayed in parallel, default 6; each in its own scratch copy and snapshot of the machinery)
one() {
  d=$1; u=""; [ -f "$d/UNDECIDED_OK" ] && u=$(cat "$d/UNDECIDED_OK")
  out=$(UNDECIDED_OK="$u" /verif/tools/try_refactor.sh "$d/patch.diff" 2>&1)
  if echo "$out" | grep -q "checks not at exit 0: 0"; then echo "== $(basename $d): clean"; else echo "== $(basename $d): ALARM"; echo "$out" | tail -6; fi
}
if [ "$1" = "--one" ]; then one "$2"; exit 0; fi
L=$(mktemp /tmp/replay-rf.XXXXXX); SD=$(mktemp -d /tmp/replay-rf-snap.XXXXXX); trap 'rm -rf "$L" "$SD"' EXIT
# one frozen snapshot of the machinery for the whole replay (edits under /verif meanwhile must not leak into it)
cp -r /verif/sa /verif/check /verif/known_findings.json /verif/properties.jsonl "$SD/"; ln -s /verif/.cache "$SD/.cache"; export SNAP_DIR="$SD"
ls -d /verif/refactorings/*/ | xargs -P ${JOBS:-6} -I{} sh -c '/verif/tools/replay_refactorings.sh --one {} > '"$L"'.$$ 2>&1; cat '"$L"'.$$; rm -f '"$L"'.$$' | tee "$L"
bad=$(grep -c ": ALARM" "$L"); echo "refactoring patches replayed: $(grep -c '^== ' "$L"), with alarms: $bad"; [ "$bad" -eq 0 ]
