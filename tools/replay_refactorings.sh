#!/bin/sh
# usage: tools/replay_refactorings.sh  - every stored behaviour-preserving patch must leave all 20 checks at exit 0
bad=0
for d in /verif/refactorings/*/; do
  u=""; [ -f "$d/UNDECIDED_OK" ] && u=$(cat "$d/UNDECIDED_OK")
  out=$(UNDECIDED_OK="$u" /verif/tools/try_refactor.sh "$d/patch.diff" 2>&1); echo "== $(basename $d): $(echo "$out" | tail -1)"
  echo "$out" | grep -q "checks not at exit 0: 0" || { bad=$((bad+1)); echo "$out" | tail -6; }
done
echo "refactoring patches with alarms: $bad"; [ $bad -eq 0 ]
