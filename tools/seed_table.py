#!/usr/bin/env python3
"""Regenerates the seeded-change table of DESIGN.md section 9.4 from seeded/*/meta.json (between the two marker lines)."""
import json, glob, os, re
HERE = os.path.dirname(os.path.dirname(os.path.abspath(__file__)))
rows = []
for p in sorted(glob.glob(os.path.join(HERE, 'seeded', '*', 'meta.json'))):
    m = json.load(open(p))
    r = m['check_result']
    first = 'no' if re.search(r'initially|MISSED|missed|exit 2|wrong reason', r) else 'yes'
    rows.append('| %s | %s | %s | %s |' % (m['id'], m['property'], first, r.replace('|', '/').replace('\n', ' ')))
table = '| seeded change | property | detected on first run | which rule reports it / what had to be strengthened |\n|---|---|---|---|\n' + '\n'.join(rows)
d = open(os.path.join(HERE, 'DESIGN.md')).read()
a, b = '<!-- seed-table:begin -->', '<!-- seed-table:end -->'
if a in d:
    d = d[:d.index(a) + len(a)] + '\n' + table + '\n' + d[d.index(b):]
    open(os.path.join(HERE, 'DESIGN.md'), 'w').write(d)
n_first = sum(1 for r in rows if '| yes |' in r)
print('%d seeded changes, %d detected on first run' % (len(rows), n_first))
