#!/bin/sh
# Build /repo's current working tree (no hook guard exists, so this is "guard off") in a scratch
# directory outside /repo and /verif and run the pinned test binaries (w2c2_test, w2c2wasi_test:
# the 15 baseline tests are their PASS / "OK resolvePath" lines).  The scratch directory is removed.
B=$(mktemp -d /tmp/w2c2-baseline.XXXXXX)
trap 'rm -rf "$B"' EXIT
cmake -G Ninja -S /repo -B "$B" >/dev/null 2>&1 || { echo "cmake configure failed"; exit 1; }
cmake --build "$B" >/dev/null 2>&1 || { echo "build failed"; exit 1; }
( "$B/w2c2/w2c2_test" 2>&1; echo "w2c2_test exit=$?"; "$B/wasi/w2c2wasi_test" 2>&1; echo "w2c2wasi_test exit=$?" ) > "$B/out.txt"
grep -E '^(PASS|FAIL|OK resolvePath|.*exit=)' "$B/out.txt"
n=$(grep -c -E '^(PASS|OK resolvePath)' "$B/out.txt")
echo "baseline tests passing: $n of 15"
grep -q 'w2c2_test exit=0' "$B/out.txt" && grep -q 'w2c2wasi_test exit=0' "$B/out.txt" && test "$n" -eq 15
