#!/bin/sh
# usage: tools/try_seed.sh <patch.diff> <PID>...   - apply a seeded change to /repo, run the checks, undo.
P=$1; shift
git -C /repo apply "$P" || { echo "patch does not apply"; exit 3; }
for pid in "$@"; do
  VERIF_EVIDENCE_DIR=/tmp/seed-ev /verif/check "$pid" 2>&1 | grep -v '^VIOLATION' | tail -${TAIL:-4} | cut -c1-400
done
git -C /repo checkout -- . ; rm -rf /tmp/seed-ev
git -C /repo status --short | grep -v _build
