#!/usr/bin/env python3
"""usage: tools/keep_seed.py <seedout dir> <seed id> <PROPERTY> "<what it needs to manifest>" "<check result summary>"
Copies a confirmed seeded change into /verif/seeded/<id>/ (patch.diff, demo/, NOTES.md, meta.json)."""
import json, os, shutil, sys
src, sid, pid, needs, result = sys.argv[1:6]
dst = os.path.join('/verif/seeded', sid)
if os.path.exists(dst):
    shutil.rmtree(dst)
os.makedirs(dst)
shutil.copy(os.path.join(src, 'patch.diff'), dst)
shutil.copytree(os.path.join(src, 'demo'), os.path.join(dst, 'demo'))
if os.path.exists(os.path.join(src, 'NOTES.md')):
    shutil.copy(os.path.join(src, 'NOTES.md'), dst)
meta = dict(id=sid, property=pid, breaks=pid, needs_to_manifest=needs,
            confirmed_by='tools/confirm_seed.sh in a fresh scratch worktree of /repo HEAD: demo exit 0 on the unchanged tree; with patch.diff '
                         'the project builds, 15/15 baseline tests pass, demo exits non-zero',
            ran=['tools/confirm_seed.sh <dir>', 'tools/try_seed.sh seeded/%s/patch.diff %s' % (sid, pid)],
            check_result=result, origin='independent sub-agent given only the property text and a scratch worktree')
json.dump(meta, open(os.path.join(dst, 'meta.json'), 'w'), indent=1)
print('kept', dst)
