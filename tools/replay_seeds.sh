#!/bin/sh
# usage: tools/replay_seeds.sh [seed-id-substring]  - regression test of the checks themselves: every kept seeded change must still be
# reported (exit 1 with a VIOLATION line) by the check of its property when applied to a scratch copy of /repo's sources.
# JOBS seeds are replayed in parallel (default 8), all against one frozen snapshot of the machinery.
if [ "$1" = "--one" ]; then
  SNAP=$2; d=$3; S=$(mktemp -d /tmp/w2c2-replay-seed1.XXXXXX); trap 'rm -rf "$S"' EXIT
  id=$(basename "$d"); pid=$(python3 -c "import json;print(json.load(open('$d/meta.json'))['property'])")
  mkdir -p "$S/repo"; (cd /repo && cp -r w2c2 wasi futex "$S/repo/")
  cp -al /verif/.cache "$S/cache" 2>/dev/null || mkdir -p "$S/cache"; export VERIF_CACHE_DIR="$S/cache"
  if ! patch -s -p1 -d "$S/repo" < "$d/patch.diff" >/dev/null 2>&1; then echo "SKIP $id (patch does not apply to the current tree)"; exit 0; fi
  VERIF_REPO="$S/repo" VERIF_EVIDENCE_DIR="$S/ev" "$SNAP/check" "$pid" --tier quick > "$S/out" 2>&1; rc=$?
  if [ $rc -eq 1 ] && grep -q '^VIOLATION' "$S/out"; then echo "DETECTED $id ($pid)"; else echo "NOT DETECTED $id ($pid): exit $rc: $(tail -1 "$S/out" | cut -c1-160)"; fi
  exit 0
fi
S=$(mktemp -d /tmp/w2c2-replay-seeds.XXXXXX); trap 'rm -rf "$S"' EXIT
# run a frozen snapshot of the machinery (a replay takes long; edits under /verif meanwhile must not leak into it)
SNAP="$S/verif"; mkdir -p "$SNAP"; cp -r /verif/sa /verif/check /verif/known_findings.json /verif/properties.jsonl "$SNAP/"; ln -s /verif/.cache "$SNAP/.cache"
# one result file per seed (named after the seed), concatenated afterwards: no line can get lost between concurrent jobs
mkdir -p "$S/res"
ls -d /verif/seeded/*${1}*/ | xargs -P ${JOBS:-8} -I{} sh -c '/verif/tools/replay_seeds.sh --one '"$SNAP"' {} > '"$S"'/res/$(basename {}) 2>&1'
cat "$S"/res/* > "$S/log"
n_seeds=$(ls -d /verif/seeded/*${1}*/ | wc -l); n_res=$(ls "$S/res" | wc -l)
[ "$n_seeds" -eq "$n_res" ] || echo "WARNING: $n_seeds seeds, $n_res results"
grep -v '^DETECTED' "$S/log"
ok=$(grep -c '^DETECTED' "$S/log"); bad=$(grep -c '^NOT DETECTED' "$S/log")
echo "seeded changes detected: $ok, not detected: $bad"
[ "$bad" -eq 0 ]
