#!/bin/sh
# usage: tools/try_refactor.sh <patch.diff>  - false-alarm test: a behaviour-preserving change applied to a scratch copy of /repo's
# sources must leave every check at exit 0 (exit 1 = false alarm, exit 2 = the analysis does not understand the new shape).
# ONLY="C04 C09" restricts the run to those checks (targeted replay after a rule change).
# UNDECIDED_OK="C05 ..." lists checks for which exit 2 (never exit 1) is the documented answer for this patch.
S=$(mktemp -d /tmp/w2c2-refactor.XXXXXX); trap 'rm -rf "$S"' EXIT
if [ -n "$SNAP_DIR" ]; then SNAP="$SNAP_DIR"; else SNAP="$S/verif"; mkdir -p "$SNAP"; cp -r /verif/sa /verif/check /verif/known_findings.json /verif/properties.jsonl "$SNAP/"; ln -s /verif/.cache "$SNAP/.cache"; fi
mkdir -p "$S/repo"; (cd /repo && cp -r w2c2 wasi futex "$S/repo/")
# AST dumps of patched sources go to a throw-away cache that starts as a hard-link copy of the main one
cp -al /verif/.cache "$S/cache" 2>/dev/null || mkdir -p "$S/cache"; export VERIF_CACHE_DIR="$S/cache"
patch -s -p1 -d "$S/repo" < "$1" || { echo "patch does not apply"; exit 3; }
bad=0
for pid in ${ONLY:-C01 C02 C03 C04 C05 C06 C07 C08 C09 C10 C11 C12 C13 C14 C15 C16 C17 C18 C19 C20}; do
  VERIF_REPO="$S/repo" VERIF_EVIDENCE_DIR="$S/ev" "$SNAP/check" "$pid" --tier quick > "$S/out" 2>&1; rc=$?
  if [ $rc -eq 2 ] && echo " $UNDECIDED_OK " | grep -q " $pid "; then echo "== $pid exit 2 (not decided - listed as expected for this patch)"; continue; fi
  if [ $rc -ne 0 ]; then bad=$((bad+1)); echo "== $pid exit $rc"; grep -v '^VIOLATION' "$S/out" | tail -4 | cut -c1-500; fi
done
echo "checks not at exit 0: $bad"
